#!/bin/sh
# Offline build of the verifier.
set -e
ROOT="$(cd "$(dirname "$0")" && pwd)"
export PATH=/opt/veriftools/go1.26.8/bin:$PATH GOTOOLCHAIN=local GOFLAGS=-mod=mod GOPROXY=off GOSUMDB=off
mkdir -p "$ROOT/bin" "$ROOT/evidence"
cd "$ROOT/govc" && go build -o "$ROOT/bin/govc" .
echo "govc built"
