package consensus

// D19 (C10).  validateCurrencyOverflow (the v1 overflow pre-check) sums outputs and contract
// values but not the miner fees; validateSiacoins then adds the fees to outputSum with the
// panicking Currency.Add.  A v1 transaction with no inputs and MinerFees = [MaxCurrency, 1]
// makes ValidateTransaction (hence ValidateBlock and transaction-pool acceptance) panic with
// "overflow" instead of returning an error.
// The obligation without proof is
//   consensus.ValidateTransaction/call:validateSiacoins#1/pre:requires#5
// (the fee part of validateSiacoins' overflow precondition is established by no caller).

import (
	"testing"

	"go.sia.tech/core/types"
)

func TestD19MinerFeesOverflow(t *testing.T) {
	n, genesisBlock := testnet()
	_, cs := newConsensusDB(n, genesisBlock)
	txn := types.Transaction{MinerFees: []types.Currency{types.MaxCurrency, types.NewCurrency64(1)}}
	defer func() {
		if r := recover(); r != nil {
			t.Fatalf("ValidateTransaction panicked on an untrusted transaction: %v", r)
		}
	}()
	ms := NewMidState(cs)
	if err := ValidateTransaction(ms, txn, V1TransactionSupplement{}); err == nil {
		t.Fatal("transaction accepted")
	}
}
