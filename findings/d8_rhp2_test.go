package rhp

// Known finding D8 (C10): RPCReadResponse.DecodeFrom converts a wire length with int(...) and
// slices/allocates with it.
import (
	"encoding/binary"
	"testing"

	"go.sia.tech/core/types"
)

func TestKnownFindingD8(t *testing.T) {
	for _, n := range []uint64{1 << 62, 1 << 63, ^uint64(0)} {
		buf := make([]byte, 16) // empty signature bytes, then dataLen
		binary.LittleEndian.PutUint64(buf[8:], n)
		func() {
			defer func() {
				if r := recover(); r == nil {
					t.Fatalf("D8 did not reproduce for %d", n)
				} else {
					t.Logf("D8 reproduced for %d: %v", n, r)
				}
			}()
			var r RPCReadResponse
			r.DecodeFrom(types.NewBufDecoder(buf))
		}()
	}
}
