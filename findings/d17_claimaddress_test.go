package types

// D17 (C12/C03), found by govc obligation
//   (*types.V2Transaction).ID/preimage:covers:coverstxn.SiafundInputs[k].ClaimAddress...
// and fixed by /repo commit c171dde.  On the tree before the fix this test fails: two
// transactions that differ only in a siafund input's claim address had the same ID (and the
// same InputSigHash, which hashes the same semantic encoding), so the address that receives the
// claim payout was not covered by any signature.
// Run:  go test -overlay <overlay placing this file in /repo/types> -run TestD17 ./types/

import "testing"

func TestD17ClaimAddressBoundByID(t *testing.T) {
	a := V2Transaction{SiafundInputs: []V2SiafundInput{{Parent: SiafundElement{ID: SiafundOutputID{1}}, ClaimAddress: Address{1}}}}
	b := V2Transaction{SiafundInputs: []V2SiafundInput{{Parent: SiafundElement{ID: SiafundOutputID{1}}, ClaimAddress: Address{2}}}}
	if a.ID() == b.ID() {
		t.Fatal("transaction ID does not depend on V2SiafundInput.ClaimAddress")
	}
}
