package consensus

// D18 (C10).  validateV2Siacoins adds the (accumulator-verified) parent values of the siacoin
// inputs and then the renewal rollovers with the panicking Currency.Add.  The overflow pre-check
// (validateV2CurrencyOverflow) bounds outputs + rollovers below 2^128 but does not include the
// input values, and the rollovers are only compared with the old contract later, in
// validateV2FileContracts.  One real siacoin input plus a renewal whose RenterRollover is
// MaxCurrency therefore makes ValidateV2Transaction panic ("overflow").
// The obligation that has no proof is  consensus.validateV2Siacoins/call:Currency.Add#.../no-panic
// once the assumed bound on the rollovers is removed from the contract.

import (
	"testing"

	"go.sia.tech/core/types"
)

func TestD18RolloverPlusInputsOverflow(t *testing.T) {
	n, genesisBlock := testnet()
	n.HardforkV2.AllowHeight = 0
	sk := types.GeneratePrivateKey()
	addr := types.StandardAddress(sk.PublicKey())
	genesisBlock.Transactions = []types.Transaction{{
		SiacoinOutputs: []types.SiacoinOutput{{Address: addr, Value: types.Siacoins(1)}},
	}}
	db, cs := newConsensusDB(n, genesisBlock)
	var parent types.SiacoinElement
	for _, sce := range db.sces {
		if sce.SiacoinOutput.Address == addr {
			parent = sce.Copy()
		}
	}
	txn := types.V2Transaction{
		SiacoinInputs: []types.V2SiacoinInput{{
			Parent:          parent,
			SatisfiedPolicy: types.SatisfiedPolicy{Policy: types.PolicyPublicKey(sk.PublicKey())},
		}},
		FileContractResolutions: []types.V2FileContractResolution{{
			Resolution: &types.V2FileContractRenewal{RenterRollover: types.MaxCurrency},
		}},
	}
	txn.SiacoinInputs[0].SatisfiedPolicy.Signatures = []types.Signature{sk.SignHash(cs.InputSigHash(txn))}
	defer func() {
		if r := recover(); r != nil {
			t.Fatalf("ValidateV2Transaction panicked on an untrusted transaction: %v", r)
		}
	}()
	ms := NewMidState(cs)
	if err := ValidateV2Transaction(ms, txn); err == nil {
		t.Fatal("transaction accepted")
	}
}
