package rhp

// D15 (C17), reported by govc as obligations that cannot be discharged:
//   (*rhp/v4.RPCFormContractRequest).Validate/call:MinRenterAllowance#1/no-panic
//   (*rhp/v4.RPCRenewContractRequest).Validate/call:MinRenterAllowance#1/no-panic and .../call:Currency.Add#1/no-panic
//   (*rhp/v4.RPCRefreshContractRequest).Validate/call:MinRenterAllowance#1/no-panic, .../call:Currency.Add#1/no-panic, .../call:Currency.Add#2/no-panic
// The Validate methods of the contract-forming requests compute products and sums of
// renter-supplied currency values with the panicking Currency operations *before* (or without)
// comparing them with the host's limits: a renter that asks for Collateral = MaxCurrency makes
// the host panic ("overflow") instead of receiving an error.  Recorded as a known finding (the
// repair touches three functions and their callers' error handling); this test fails on the
// pinned tree.

import (
	"testing"
	"time"

	"go.sia.tech/core/types"
)

func TestD15FormContractValidatePanics(t *testing.T) {
	hostKey := types.GeneratePrivateKey()
	prices := HostPrices{
		ContractPrice: types.Siacoins(1),
		Collateral:    types.NewCurrency64(1),
		StoragePrice:  types.NewCurrency64(2),
		TipHeight:     1,
		ValidUntil:    time.Now().Add(time.Hour),
	}
	prices.Signature = hostKey.SignHash(prices.SigHash())
	req := RPCFormContractRequest{
		Prices: prices,
		Contract: RPCFormContractParams{
			Allowance:   types.Siacoins(1),
			Collateral:  types.MaxCurrency,
			ProofHeight: 100,
		},
		MinerFee:     types.Siacoins(1),
		Basis:        types.ChainIndex{Height: 1, ID: types.BlockID{1}},
		RenterInputs: []types.SiacoinElement{{}},
	}
	defer func() {
		if r := recover(); r != nil {
			t.Fatalf("Validate panicked on a renter-supplied request: %v", r)
		}
	}()
	if err := req.Validate(hostKey.PublicKey(), types.ChainIndex{Height: 1}, types.Siacoins(1000), 1000); err == nil {
		t.Fatal("request with collateral far above the maximum accepted")
	}
}
