package rhp

// D11 (C20), reported by govc as the undischargeable callee precondition
//   (*rhp/v4.Account).UnmarshalText/call:hex.Decode#1/pre:requires#1
// and fixed by a `fix:` commit in /repo.  Before the fix this test fails (index out of range).

import (
	"strings"
	"testing"
)

func TestD11AccountTextTooLong(t *testing.T) {
	defer func() {
		if r := recover(); r != nil {
			t.Fatalf("UnmarshalText panicked on an over-long account: %v", r)
		}
	}()
	var a Account
	if err := a.UnmarshalText([]byte("ed25519:" + strings.Repeat("ab", 33))); err == nil {
		t.Fatal("over-long account accepted")
	}
}
