package rhp

// Known findings D6/D7 (C10): decoders allocate a wire-controlled length without comparing it
// with the bytes the stream can still deliver.  Run with:
//   cd /repo/rhp/v3 && go test -overlay <overlay.json> -vet=off -run TestKnownFindingD6D7 .
import (
	"encoding/binary"
	"testing"

	"go.sia.tech/core/types"
)

func decodePanics(f func()) (msg any) {
	defer func() { msg = recover() }()
	f()
	return nil
}

func TestKnownFindingD6D7(t *testing.T) {
	// D6: 40-byte input, instruction count 2^62
	buf := make([]byte, 40)
	binary.LittleEndian.PutUint64(buf[32:], 1<<62)
	if msg := decodePanics(func() {
		var r RPCExecuteProgramRequest
		r.DecodeFrom(types.NewBufDecoder(buf))
	}); msg == nil {
		t.Fatal("D6 did not reproduce")
	} else {
		t.Log("D6 reproduced:", msg)
	}
	// D7: AdditionalCollateral (length-prefixed, empty) then OutputLength 2^62
	buf2 := make([]byte, 16)
	binary.LittleEndian.PutUint64(buf2[8:], 1<<62)
	if msg := decodePanics(func() {
		var r RPCExecuteProgramResponse
		r.DecodeFrom(types.NewBufDecoder(buf2))
	}); msg == nil {
		t.Fatal("D7 did not reproduce")
	} else {
		t.Log("D7 reproduced:", msg)
	}
}
