package types

// D10 (C20), reported by govc as the undischargeable callee precondition
//   (*types.ChainIndex).UnmarshalText/call:hex.Decode#1/pre:requires#1
// (hex.Decode writes len(src)/2 bytes into dst and panics when dst is shorter) and fixed by a
// `fix:` commit in /repo.  Before the fix this test fails: an identifier that is too long made
// the parser panic with "index out of range [32] with length 32" instead of being rejected.

import (
	"strings"
	"testing"
)

func TestD10ChainIndexTextTooLong(t *testing.T) {
	defer func() {
		if r := recover(); r != nil {
			t.Fatalf("UnmarshalText panicked on an over-long identifier: %v", r)
		}
	}()
	var ci ChainIndex
	if err := ci.UnmarshalText([]byte("1::" + strings.Repeat("ab", 33))); err == nil {
		t.Fatal("over-long block ID accepted")
	}
}
