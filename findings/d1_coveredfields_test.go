package consensus

// D1 (C10), reported by govc as the undischargeable callee precondition
//   consensus.validateSignatures/call:State.PartialSigHash#1/pre:covered-fields-in-range
// (and .../call:State.WholeSigHash#1/pre:covered-signatures-in-range) and fixed by /repo commit
// 0c50de0.  On the tree before the fix this test fails: ValidateTransaction panics with
// "index out of range [7] with length 0" on a v1 transaction whose signature covers a siacoin
// output that does not exist.
// Run:  go test -overlay <overlay placing this file in /repo/consensus> -run TestD1 ./consensus/

import (
	"testing"

	"go.sia.tech/core/types"
)

func TestD1CoveredFieldsOutOfRange(t *testing.T) {
	n, genesisBlock := testnet()
	sk := types.GeneratePrivateKey()
	uc := types.StandardUnlockConditions(sk.PublicKey())
	genesisBlock.Transactions = []types.Transaction{{
		SiacoinOutputs: []types.SiacoinOutput{{Address: uc.UnlockHash(), Value: types.Siacoins(10)}},
	}}
	db, cs2 := newConsensusDB(n, genesisBlock)
	parent := genesisBlock.Transactions[0].SiacoinOutputID(0)
	txn := types.Transaction{
		SiacoinInputs: []types.SiacoinInput{{ParentID: parent, UnlockConditions: uc}},
		MinerFees:     []types.Currency{types.Siacoins(10)},
		Signatures: []types.TransactionSignature{{
			ParentID:       types.Hash256(parent),
			PublicKeyIndex: 0,
			CoveredFields:  types.CoveredFields{SiacoinOutputs: []uint64{7}},
			Signature:      make([]byte, 64),
		}},
	}
	ms := NewMidState(cs2)
	defer func() {
		if r := recover(); r != nil {
			t.Fatalf("ValidateTransaction panicked on an untrusted transaction: %v", r)
		}
	}()
	bs := db.supplementTipBlock(types.Block{Transactions: []types.Transaction{txn}})
	if err := ValidateTransaction(ms, txn, bs.Transactions[0]); err == nil {
		t.Fatal("transaction with out-of-range covered fields accepted")
	}
}
