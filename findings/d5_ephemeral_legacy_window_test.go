package consensus

// D5 (C04, C01, C10) — known finding, not repaired.
// Before HardforkV2.EphemeralOutputHeight an "ephemeral" parent (an output created earlier in the
// same block, leaf index still unassigned) is accepted as soon as an element with that ID was
// created in the block: its contents (value, address, maturity height, claim start) are taken
// from the spending transaction and are not compared with what was created.  The existing test
// "ephemeral output value not enforced before EphemeralOutputHeight" pins this for historical
// blocks, so it is not something a local repair may change.  Consequences in that window:
//   - C04/C01: a siafund (or siacoin) parent with a forged value is accepted: value from nothing;
//   - C10: a siafund parent with a forged ClaimStart passes ValidateV2Transaction, and the
//     ApplyV2Transaction that ValidateBlock runs next panics in Currency.Sub ("underflow").
// Obligations without proof:
//   consensus.validateEphemeralSiafundElement/ensures:ephemeral-content-legacy-window
//   consensus.validateEphemeralSiacoinElement/ensures:ephemeral-content-legacy-window

import (
	"testing"

	"go.sia.tech/core/types"
)

func d5State(t *testing.T) (*MidState, types.PrivateKey, types.Address) {
	n, genesisBlock := testnet()
	n.HardforkV2.AllowHeight = 0
	n.HardforkV2.EphemeralOutputHeight = 1000 // the block being validated lies in the legacy window
	_, cs := newConsensusDB(n, genesisBlock)
	sk := types.GeneratePrivateKey()
	return NewMidState(cs), sk, types.StandardAddress(sk.PublicKey())
}

func TestD5EphemeralSiafundForgedClaimStartPanicsInApply(t *testing.T) {
	ms, sk, addr := d5State(t)
	// an earlier transaction of the block created one siafund for addr
	id := types.SiafundOutputID{1}
	ms.createSiafundElement(id, types.SiafundOutput{Value: 1, Address: addr})
	txn := types.V2Transaction{
		SiafundInputs: []types.V2SiafundInput{{
			Parent: types.SiafundElement{
				ID:            id,
				StateElement:  types.StateElement{LeafIndex: types.UnassignedLeafIndex},
				SiafundOutput: types.SiafundOutput{Value: 1, Address: addr},
				ClaimStart:    types.MaxCurrency, // forged
			},
			SatisfiedPolicy: types.SatisfiedPolicy{Policy: types.PolicyPublicKey(sk.PublicKey())},
		}},
		SiafundOutputs: []types.SiafundOutput{{Value: 1, Address: addr}},
	}
	txn.SiafundInputs[0].SatisfiedPolicy.Signatures = []types.Signature{sk.SignHash(ms.base.InputSigHash(txn))}
	if err := ValidateV2Transaction(ms, txn); err != nil {
		t.Skipf("transaction rejected (the legacy window no longer accepts forged ephemeral parents): %v", err)
	}
	defer func() {
		if r := recover(); r != nil {
			t.Fatalf("a transaction that passed ValidateV2Transaction makes ApplyV2Transaction (run by ValidateBlock) panic: %v", r)
		}
	}()
	ms.ApplyV2Transaction(txn)
}

func TestD5EphemeralSiafundForgedValueAccepted(t *testing.T) {
	ms, sk, addr := d5State(t)
	id := types.SiafundOutputID{2}
	ms.createSiafundElement(id, types.SiafundOutput{Value: 1, Address: addr})
	txn := types.V2Transaction{
		SiafundInputs: []types.V2SiafundInput{{
			Parent: types.SiafundElement{
				ID:            id,
				StateElement:  types.StateElement{LeafIndex: types.UnassignedLeafIndex},
				SiafundOutput: types.SiafundOutput{Value: 5000, Address: addr}, // created with 1
			},
			SatisfiedPolicy: types.SatisfiedPolicy{Policy: types.PolicyPublicKey(sk.PublicKey())},
		}},
		SiafundOutputs: []types.SiafundOutput{{Value: 5000, Address: addr}},
	}
	txn.SiafundInputs[0].SatisfiedPolicy.Signatures = []types.Signature{sk.SignHash(ms.base.InputSigHash(txn))}
	if err := ValidateV2Transaction(ms, txn); err == nil {
		t.Fatal("a siafund parent created with value 1 was accepted with value 5000: 4999 siafunds from nothing")
	}
}
