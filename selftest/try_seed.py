#!/usr/bin/env python3
"""Confirm a seeded change and run the property checks against it.
usage: try_seed.py <seed-name> <dir with patch.diff + demo test + notes.md> <demo pkg dir rel to repo> <props comma separated>
Steps: (1) scratch worktree of /repo HEAD: suite passes with the patch; demo fails with it and passes without;
       (2) apply the patch to /repo, run ./check <prop> quick for each prop, always revert;
       (3) store under /verif/seeded/<seed-name>/ (patch.diff, demo, meta.json).
"""
import json, os, subprocess, sys, shutil, glob, time
name, src, pkg, props = sys.argv[1], sys.argv[2], sys.argv[3], sys.argv[4].split(',')
ENV = dict(os.environ, PATH="/opt/veriftools/go1.26.8/bin:" + os.environ["PATH"], GOTOOLCHAIN="local", GOFLAGS="-mod=mod", GOPROXY="off", GOSUMDB="off")
def sh(cmd, cwd=None, check=False):
    p = subprocess.run(cmd, shell=True, cwd=cwd, capture_output=True, text=True, env=ENV)
    if check and p.returncode != 0:
        print(p.stdout[-2000:], p.stderr[-2000:]); sys.exit("FAILED: " + cmd)
    return p
patch = os.path.join(src, "patch.diff")
demos = [f for f in glob.glob(os.path.join(src, "*_test.go"))]
assert os.path.exists(patch) and demos, "patch.diff / demo missing"
wt = f"/tmp/seedchk-{name}"
sh(f"git -C /repo worktree remove --force {wt}")
sh(f"git -C /repo worktree add --detach {wt} HEAD", check=True)
meta = {"name": name, "breaks": props, "ran": []}
try:
    for d in demos:
        shutil.copy(d, os.path.join(wt, pkg, os.path.basename(d)))
    r = sh(f"go test -count=1 ./{pkg}/ -run '{'|'.join(demo_tests) if (demo_tests:=[]) else ''}'", cwd=wt) if False else None
    # demo on original
    r0 = sh(f"go test -count=1 ./{pkg}/", cwd=wt)
    meta["ran"].append({"cmd": f"go test ./{pkg}/ (original + demo)", "exit": r0.returncode})
    sh(f"git apply {patch}", cwd=wt, check=True)
    r1 = sh(f"go test -count=1 ./{pkg}/", cwd=wt)
    meta["ran"].append({"cmd": f"go test ./{pkg}/ (patched + demo)", "exit": r1.returncode})
    for d in demos:
        os.remove(os.path.join(wt, pkg, os.path.basename(d)))
    r2 = sh("go build ./... && go test -count=1 ./...", cwd=wt)
    meta["ran"].append({"cmd": "go build ./... && go test ./... (patched, suite only)", "exit": r2.returncode})
    ok = r0.returncode == 0 and r1.returncode != 0 and r2.returncode == 0
    meta["confirmed"] = ok
    print(f"[{name}] demo passes on original: {r0.returncode==0}; demo fails with patch: {r1.returncode!=0}; suite passes with patch: {r2.returncode==0}")
    if not ok:
        print(r0.stdout[-600:], r1.stdout[-600:], r2.stdout[-1200:])
finally:
    sh(f"git -C /repo worktree remove --force {wt}")
if not meta.get("confirmed"):
    sys.exit(1)
# run checks against the patched /repo
assert sh("git -C /repo status --porcelain").stdout.strip() == "", "/repo not clean"
sh(f"git -C /repo apply {patch}", check=True)
results = {}
try:
    for p in props:
        t0 = time.time()
        r = sh(f"./check {p} quick", cwd="/verif")
        viol = [l for l in r.stdout.splitlines() if l.startswith("VIOLATION")]
        results[p] = {"exit": r.returncode, "violations": viol[:5], "seconds": round(time.time() - t0)}
        print(f"[{name}] check {p}: exit={r.returncode} violations={len(viol)}")
        for v in viol[:3]:
            print("   ", v)
        if r.returncode not in (0, 1):
            print(r.stdout[-1500:])
finally:
    sh("git -C /repo checkout -- .", check=True)
    # evidence files were rewritten by the patched run: restore committed ones
    sh("git -C /verif checkout -- evidence")
meta["checks"] = results
meta["caught_by"] = [p for p, r in results.items() if r["exit"] == 1 and r["violations"]]
dst = f"/verif/seeded/{name}"
os.makedirs(dst, exist_ok=True)
shutil.copy(patch, dst)
for d in demos:
    shutil.copy(d, os.path.join(dst, os.path.basename(d) + ".txt"))
if os.path.exists(os.path.join(src, "notes.md")):
    shutil.copy(os.path.join(src, "notes.md"), dst)
    meta["needs"] = open(os.path.join(src, "notes.md")).read()[:1500]
json.dump(meta, open(os.path.join(dst, "meta.json"), "w"), indent=1)
print(f"[{name}] caught_by={meta['caught_by']}")
