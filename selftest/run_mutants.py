#!/usr/bin/env python3
"""Must-fail corpus: apply each mutant (a small source edit that compiles) to a scratch copy of
/repo and check that the registered property check reports a VIOLATION (exit 1).

usage: run_mutants.py [name-substring ...]      (scratch copies live under /tmp and are removed)
"""
import json, os, subprocess, sys, shutil, glob, tempfile, time
ROOT = os.path.dirname(os.path.abspath(__file__))
VERIF = os.path.dirname(ROOT)
REPO = os.environ.get("REPO", "/repo")

def run(name, spec):
    tmp = tempfile.mkdtemp(prefix="govc-mut.")
    try:
        # scratch copy of the current working tree (not of HEAD)
        subprocess.check_call(f"cd {REPO} && tar --exclude=.git -cf - . | tar -x -C {tmp}", shell=True)
        for ed in spec["edits"]:
            path = os.path.join(tmp, ed["file"])
            s = open(path).read()
            if s.count(ed["old"]) != 1:
                return "BROKEN-MUTANT(old text occurs %d times)" % s.count(ed["old"])
            open(path, "w").write(s.replace(ed["old"], ed["new"]))
        env = dict(os.environ, VERIF_ROOT=VERIF)
        ev = tempfile.mkdtemp(prefix="govc-mut-ev.")
        out = []
        ok = True
        for prop in spec["props"]:
            t0 = time.time()
            p = subprocess.run([f"{VERIF}/bin/govc", "check", "-repo", tmp, "-evidence", ev, prop, "quick"], capture_output=True, text=True, env=env)
            viol = [l for l in p.stdout.splitlines() if l.startswith("VIOLATION")]
            want = spec.get("expect", "violation")
            if want == "violation":
                good = p.returncode == 1 and len(viol) > 0
            else:
                good = p.returncode == 0 and not viol
            ok = ok and good
            out.append(f"{prop}: exit={p.returncode} violations={len(viol)} replayed={sum('no-failing-input-found' not in v for v in viol)} {time.time()-t0:.0f}s")
            if not good:
                out.append(p.stdout[-1500:])
        shutil.rmtree(ev, ignore_errors=True)
        return ("CAUGHT " if ok else "MISSED ") + "; ".join(out)
    finally:
        shutil.rmtree(tmp, ignore_errors=True)

def main():
    args = sys.argv[1:]
    prop, summary = None, None
    if "--prop" in args:
        i = args.index("--prop"); prop = args[i+1]; del args[i:i+2]
    if "--summary" in args:
        i = args.index("--summary"); summary = args[i+1]; del args[i:i+2]
    pats = args
    bad = 0
    results = []
    for f in sorted(glob.glob(os.path.join(ROOT, "mutants", "*.json"))):
        name = os.path.basename(f)[:-5]
        if pats and not any(p in name for p in pats):
            continue
        spec = json.load(open(f))
        if prop:
            if prop not in spec["props"]:
                continue
            spec = dict(spec, props=[prop])
        r = run(name, spec)
        print(f"{name}: {r}", flush=True)
        ok = r.startswith("CAUGHT") or r.startswith("BROKEN-MUTANT")  # a mutant whose site no longer exists is skipped
        results.append({"mutant": name, "why": spec.get("why", ""), "expect": spec.get("expect", "violation"), "as_expected": ok, "detail": r[:300]})
        if not ok:
            bad += 1
    if summary:
        os.makedirs(os.path.dirname(summary), exist_ok=True)
        json.dump({"property": prop, "mutants": results, "all_as_expected": bad == 0}, open(summary, "w"), indent=1)
    sys.exit(1 if bad else 0)

main()
