package main

import (
	"fmt"
	"go/types"
	"os"
	"sort"
	"strings"

	"golang.org/x/tools/go/ssa"
)

type codecType struct {
	Named *types.Named
	Enc   *ssa.Function
	Dec   *ssa.Function
	Pair  string // "" for EncodeTo/DecodeFrom, else e.g. "request"
}

var codecPairs = [][3]string{
	{"EncodeTo", "DecodeFrom", ""},
	{"encodeTo", "decodeFrom", "lower"},
	{"encodeRequest", "decodeRequest", "request"},
	{"encodeResponse", "decodeResponse", "response"},
}

// codecTypes lists the named types of the module that have an encoder/decoder method pair over
// *types.Encoder / *types.Decoder.
func (p *Program) codecTypes(pkgFilter string) []codecType {
	var out []codecType
	var paths []string
	for path := range p.ByPath {
		if strings.HasPrefix(path, modPath) && (pkgFilter == "" || strings.HasSuffix(path, pkgFilter)) {
			paths = append(paths, path)
		}
	}
	sort.Strings(paths)
	for _, path := range paths {
		sc := p.ByPath[path].Types.Scope()
		for _, name := range sc.Names() {
			tn, ok := sc.Lookup(name).(*types.TypeName)
			if !ok || tn.IsAlias() {
				continue
			}
			nt, ok := tn.Type().(*types.Named)
			if !ok || nt.TypeParams().Len() > 0 {
				continue
			}
			for _, pr := range codecPairs {
				enc, dec := p.realMethod(nt, pr[0]), p.realMethod(nt, pr[1])
				if enc == nil || dec == nil || len(enc.Params) != 2 || len(dec.Params) != 2 {
					continue
				}
				if !isEncoderPtr(enc.Params[1].Type()) || !isDecoderPtr(dec.Params[1].Type()) {
					continue
				}
				out = append(out, codecType{nt, enc, dec, pr[2]})
			}
		}
	}
	return out
}

// realMethod finds the declared (non-wrapper) method function of a named type.
func (p *Program) realMethod(nt *types.Named, name string) *ssa.Function {
	pp := nt.Obj().Pkg().Path()
	for _, key := range []string{"(" + pp + "." + nt.Obj().Name() + ")." + name, "(*" + pp + "." + nt.Obj().Name() + ")." + name} {
		if f := p.Funcs[key]; f != nil && f.Blocks != nil && f.Synthetic == "" {
			return f
		}
	}
	return nil
}

func mergeRets(fr *Frame) (g *Term, mem Mem) {
	var gs []*Term
	var ms []Mem
	for _, r := range fr.rets {
		gs = append(gs, r.guard)
		ms = append(ms, r.mem)
	}
	if len(gs) == 0 {
		return TFalse, Mem{}
	}
	return Or(gs...), mergeMem(gs, ms)
}

// WireCheck generates the round-trip obligations of one codec type.
func (p *Program) WireCheck(ct codecType) (rep *FuncReport) { return p.WireCheckMode(ct, "all") }

// WireCheckMode: mode "roundtrip" (C11), "total" (C10: decoder on arbitrary input) or "all".
func (p *Program) WireCheckMode(ct codecType, mode string) (rep *FuncReport) {
	initStream()
	elem := types.Type(ct.Named)
	name := "wire:" + typeKey(elem)
	if ct.Pair != "" {
		name += ":" + ct.Pair
	}
	rep = &FuncReport{Name: name, Pos: p.Pos(ct.Enc.Pos()), SSAHash: ssaHash(ct.Enc)[:8] + ssaHash(ct.Dec)[:8]}
	ex := &Exec{P: p, Unit: name, Inlined: map[string]bool{}, Used: map[string]bool{}, Trusted: map[string]bool{}, wireDeps: map[string]bool{}}
	defer func() {
		if r := recover(); r != nil {
			if se, ok := r.(specErr); ok {
				rep.Err = se.msg
				return
			}
			rep.Err = fmt.Sprint(r)
		}
	}()
	var xs *Sort
	func() {
		defer func() { recover() }()
		xs = SortOf(elem)
	}()
	if xs == nil {
		rep.Err = "type not representable"
		return rep
	}
	x := Typed(Sym("x", xs), elem)
	ex.Inputs = []*Term{x}
	mem := Mem{}
	encT := ct.Enc.Params[1].Type().(*types.Pointer).Elem()
	decT := ct.Dec.Params[1].Type().(*types.Pointer).Elem()
	if mode == "total" {
		p.wireTotal(ex, ct, elem, decT)
		ex.finish(0)
		rep.Obls = ex.Obls
		rep.OOS = ex.OOS
		rep.Assumed = ex.AssumedNotes
		return rep
	}
	// ---- encode ----
	ec := ex.newCell(encT, "e")
	var recvArg Val
	if _, isP := ct.Enc.Params[0].Type().Underlying().(*types.Pointer); isP {
		rc := ex.newCell(elem, "recv")
		mem[rc] = x
		recvArg = PtrV{Cell: rc, Elem: elem}
	} else {
		recvArg = TV{x, elem}
	}
	ex.wireUnit = ct.Enc
	ex.stack = []*ssa.Function{ct.Enc}
	frE := &Frame{ex: ex, fn: ct.Enc, con: p.Store.Funcs[ct.Enc.String()], prefix: "enc/", cells: map[ssa.Value]*Cell{}}
	frE.run([]Val{recvArg, PtrV{Cell: ec, Elem: encT}}, nil, mem, TTrue)
	gE, _ := mergeRets(frE)
	// ---- decode ----
	t0 := Sym("tail0", streamS)
	if want := p.Store.WireOrder[typeKey(elem)]; len(want) > 0 {
		// specified field order: the sequence of top-level fields of x that the successive
		// items of the encoder's stream are computed from
		got, kinds, ok := fieldOrderOf(ex.streamOf(ec, t0), x, elem)
		same := ok && len(got) == len(want)
		for i := 0; same && i < len(want); i++ {
			// an entry is Field or Field/kind+kind (the item kinds the field is transmitted as)
			w, wk, hasK := strings.Cut(want[i], "/")
			same = got[i] == w && (!hasK || kinds[i] == wk)
		}
		if !same {
			for i := range got {
				got[i] += "/" + kinds[i]
			}
		}
		goal := TTrue
		if !same {
			goal = TFalse
			ex.note("wire-order of %s: specified %v, encoder transmits %v (stream closed: %v)", typeKey(elem), want, got, ok)
		}
		ex.oblige("enc/field-order", "wire", p.Pos(ct.Enc.Pos()), gE, goal)
	}
	rem0 := IntB(Pow2(62))
	dc := ex.newCell(decT, "d")
	dg := ex.ghostOf(dc, decS)
	vc := ex.newCell(elem, "v")
	mem2 := Mem{}
	mem2[dg] = MkCtor(decC, ex.streamOf(ec, t0), TFalse, rem0)
	if os.Getenv("GOVC_WIREDEBUG") != "" {
		st := ex.streamOf(ec, t0)
		n := 0
		collect([]*Term{st}, func(*Term) { n++ })
		str := st.String()
		if len(str) > 3000 {
			str = str[:3000]
		}
		fmt.Fprintf(os.Stderr, "STREAM nodes=%d: %s\n", n, str)
	}
	mem2[vc] = ZeroOf(elem)
	ex.wireUnit = ct.Dec
	ex.stack = []*ssa.Function{ct.Dec}
	frD := &Frame{ex: ex, fn: ct.Dec, con: p.Store.Funcs[ct.Dec.String()], prefix: "dec/", cells: map[ssa.Value]*Cell{}}
	var drecv Val = PtrV{Cell: vc, Elem: elem}
	if _, isP := ct.Dec.Params[0].Type().Underlying().(*types.Pointer); !isP {
		rep.Err = "DecodeFrom with value receiver"
		return rep
	}
	frD.run([]Val{drecv, PtrV{Cell: dc, Elem: decT}}, nil, mem2, gE)
	gD, mD := mergeRets(frD)
	D, V := mD[dg], ex.refreshAliases(mD, vc, mD[vc])
	if os.Getenv("GOVC_WIREDEBUG") != "" && D != nil {
		n := 0
		collect([]*Term{D}, func(*Term) { n++ })
		fmt.Fprintf(os.Stderr, "DECSTATE nodes=%d\n", n)
	}
	if D == nil || V == nil {
		rep.Err = "decoder state lost"
		return rep
	}
	pos := p.Pos(ct.Dec.Pos())
	ex.oblige("dec/no-error", "wire", pos, gD, Not(decErr(D)))
	ex.oblige("dec/consumes-exactly", "wire", pos, gD, Implies(Not(decErr(D)), Eq(decIn(D), t0)))
	wireIgnorePaths = map[string]bool{}
	for _, pth := range p.Store.WireIgnore[typeKey(elem)] {
		wireIgnorePaths[pth] = true
		ex.note("documented normalisation: field %s of %s is not compared after the round trip", pth, typeKey(elem))
	}
	wirePath = nil
	if ct.Pair == "request" || ct.Pair == "response" {
		// an RPC object carries the request and the response in one struct: each direction
		// transmits its own fields; the fields a direction does not mention are not compared
		// (the union over both directions must cover every field: see fields-covered)
		st, _ := elem.Underlying().(*types.Struct)
		stream := ex.streamOf(ec, t0)
		if st != nil {
			c := structCtor(elem)
			used := map[*Term]bool{}
			collect([]*Term{stream}, func(t *Term) { used[t] = true })
			for i := 0; i < st.NumFields(); i++ {
				f := SelField(c, i, x)
				if used[f] {
					wireCovered[typeKey(elem)+"."+st.Field(i).Name()] = true
				} else {
					wireIgnorePaths[st.Field(i).Name()] = true
				}
			}
		}
	}
	ex.oblige("dec/inverse", "wire", pos, gD, wireEq(elem, x, V, 0))
	ex.Covers = append(ex.Covers, &Obligation{Name: name + "/cover/roundtrip", Kind: "cover", Func: name, Expect: "sat",
		Hyps: append(append([]*Term{}, ex.Assumes...), gD), Goal: TFalse, Inputs: ex.Inputs})
	if mode == "all" {
		p.wireTotal(ex, ct, elem, decT)
	}
	ex.finish(0)
	rep.Obls = ex.Obls
	rep.OOS = ex.OOS
	for k := range ex.Inlined {
		rep.Inlined = append(rep.Inlined, k)
	}
	for k := range ex.wireDeps {
		rep.Used = append(rep.Used, "codec:"+k)
	}
	sort.Strings(rep.Inlined)
	sort.Strings(rep.Used)
	rep.Assumed = ex.AssumedNotes
	return rep
}

// isCodecType: the type has its own round-trip check (both directions exist).
func (p *Program) isCodecType(t types.Type) bool {
	if p.codecSet == nil {
		p.codecSet = map[string]bool{}
		for _, ct := range p.codecTypes("") {
			if ct.Pair == "" {
				p.codecSet[typeKey(ct.Named)] = true
			}
		}
	}
	return p.codecSet[typeKey(t)]
}

// wireSkip: codec types that are outside the wire engine (reason in DESIGN.md).
var wireSkip = map[string]bool{
	"types.V2TransactionsMultiproof": true, // strips and rebuilds Merkle proofs: C18 [B]
	"types.SpendPolicy":              true, // recursive, interface-typed: C14
	"types.V1Currency":               true, // variable-length big-endian trimming (bytes.TrimLeft): bounded stand-in
	"types.V2FileContractResolution": true, // decodes through a pointer held in an interface value: bounded stand-in
}

// wireCovered records, for RPC objects, which fields some direction transmits.
var wireCovered = map[string]bool{}

// wireTotal: the decoder run on an arbitrary input stream; only its safety obligations matter.
func (p *Program) wireTotal(ex *Exec, ct codecType, elem types.Type, decT types.Type) {
	mem3 := Mem{}
	dc2 := ex.newCell(decT, "d")
	dg2 := ex.ghostOf(dc2, decS)
	vc2 := ex.newCell(elem, "v")
	mem3[dg2] = Sym("anyinput", decS)
	mem3[vc2] = ZeroOf(elem)
	ex.wireUnit = ct.Dec
	ex.stack = []*ssa.Function{ct.Dec}
	frT := &Frame{ex: ex, fn: ct.Dec, con: p.Store.Funcs[ct.Dec.String()], prefix: "dec-any/", cells: map[ssa.Value]*Cell{}}
	frT.run([]Val{PtrV{Cell: vc2, Elem: elem}, PtrV{Cell: dc2, Elem: decT}}, nil, mem3, TTrue)
}

// fieldOrderOf lists, in stream order, the top-level fields of x that the items of an encoder
// stream depend on (consecutive repetitions collapsed; an item that depends on no field of x,
// e.g. a constant tag, is skipped).  ok is false when the stream has no known shape.
func fieldOrderOf(stream, x *Term, elem types.Type) (order []string, kinds []string, ok bool) {
	st, _ := elem.Underlying().(*types.Struct)
	if st == nil {
		return nil, nil, false
	}
	c := structCtor(elem)
	fieldOf := map[*Term]string{}
	for i := 0; i < st.NumFields(); i++ {
		fieldOf[SelField(c, i, x)] = st.Field(i).Name()
	}
	s := stream
	for {
		if s.Op != "ctor" || len(s.Args) == 0 {
			return order, kinds, s.Op == "sym" || (s.Op == "ctor" && len(s.Args) == 0)
		}
		// the last argument of an item constructor is the rest of the stream
		rest := s.Args[len(s.Args)-1]
		if rest.Sort != s.Sort {
			return order, kinds, false
		}
		kind := strings.TrimPrefix(s.Name, "st.")
		if i := strings.IndexAny(kind, "<:!"); i > 0 {
			kind = kind[:i]
		}
		seen := map[string]bool{}
		var names []string
		collect(s.Args[:len(s.Args)-1], func(t *Term) {
			if n, isF := fieldOf[t]; isF && !seen[n] {
				seen[n] = true
				names = append(names, n)
			}
		})
		sort.Strings(names)
		for _, n := range names {
			if len(order) == 0 || order[len(order)-1] != n {
				order = append(order, n)
				kinds = append(kinds, kind)
			} else {
				kinds[len(kinds)-1] += "+" + kind
			}
		}
		s = rest
	}
}
