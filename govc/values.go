package main

// Symbolic values of the executor.

import (
	"fmt"
	"go/constant"
	"go/token"
	"go/types"
	"math/big"

	"golang.org/x/tools/go/ssa"
)

type Val interface{}

// TV: a value represented by an SMT term.
type TV struct {
	T   *Term
	Typ types.Type
}

type PathEl struct {
	IsIdx bool
	Field int
	Idx   *Term
}

// Cell: an addressable memory cell (local alloc, new, pointer parameter target, make'd backing array).
type Cell struct {
	ID   int
	Typ  types.Type // element type stored in the cell (for Dyn: the array's element type)
	Name string
	Dyn  bool // backing store of a make'd slice: cell value is (Array Int Elem)
	Len  *Term
	Param bool
	Ghost *Sort // ghost cell (wire engine): holds a term of this sort
}

func (c *Cell) sort() *Sort {
	if c.Ghost != nil {
		return c.Ghost
	}
	if c.Dyn {
		return ArraySort(SInt, SortOf(c.Typ))
	}
	return SortOf(c.Typ)
}

// PtrV: pointer into a known cell.
type PtrV struct {
	Cell *Cell
	Path []PathEl
	Elem types.Type // pointee type
}

// ValPtr: read-only pointer to a location inside an immutable term value.
type ValPtr struct {
	Root *Term
	Elem types.Type
}

// SliceV: slice over an array stored inside a known cell.
type SliceV struct {
	Cell   *Cell
	Path   []PathEl // path to the array inside the cell
	Lo, Hi *Term    // window [Lo,Hi) within the array
	Cap    *Term    // absolute end of capacity
	Elem   types.Type
	Typ    types.Type
}

// MapV: a map made in this activation, held in a cell (so that updates are path-sensitive).
type MapV struct {
	Cell *Cell
	Typ  types.Type
}

type TupleV []Val

type FuncV struct {
	Fn   *ssa.Function
	Bind []Val
}

type IfaceV struct {
	Dyn    Val
	DynTyp types.Type
	Typ    types.Type
}

type OpaqueV struct {
	Why string
	Typ types.Type
}

type Mem map[*Cell]*Term

func (m Mem) clone() Mem {
	n := make(Mem, len(m))
	for k, v := range m {
		n[k] = v
	}
	return n
}

func elemTypeAt(t types.Type, el PathEl) types.Type {
	switch u := t.Underlying().(type) {
	case *types.Struct:
		return u.Field(el.Field).Type()
	case *types.Array:
		return u.Elem()
	}
	panic(fmt.Sprintf("elemTypeAt %s", t))
}

// project reads the location path inside term x of Go type t.
func project(x *Term, t types.Type, path []PathEl) (*Term, types.Type) {
	for _, el := range path {
		if el.IsIdx {
			at := t.Underlying().(*types.Array)
			x = Select(x, el.Idx)
			t = at.Elem()
		} else {
			st := t.Underlying().(*types.Struct)
			x = SelField(structCtor(t), el.Field, x)
			t = st.Field(el.Field).Type()
		}
		x = Typed(x, t)
	}
	return x, t
}

// update writes v at path inside x.
func update(x *Term, t types.Type, path []PathEl, v *Term) *Term {
	if len(path) == 0 {
		return v
	}
	el := path[0]
	if el.IsIdx {
		at := t.Underlying().(*types.Array)
		inner := update(Select(x, el.Idx), at.Elem(), path[1:], v)
		return Store(x, el.Idx, inner)
	}
	st := t.Underlying().(*types.Struct)
	c := structCtor(t)
	inner := update(SelField(c, el.Field, x), st.Field(el.Field).Type(), path[1:], v)
	return UpdField(c, el.Field, x, inner)
}

// Dyn cell variants (cell value is an array of Elem)
func projectDyn(x *Term, elem types.Type, path []PathEl) (*Term, types.Type) {
	if len(path) == 0 {
		panic("projectDyn: empty path")
	}
	e := Typed(Select(x, path[0].Idx), elem)
	return project(e, elem, path[1:])
}

func updateDyn(x *Term, elem types.Type, path []PathEl, v *Term) *Term {
	inner := update(Select(x, path[0].Idx), elem, path[1:], v)
	return Store(x, path[0].Idx, inner)
}

// constTerm converts a Go constant to a term of type t.
func constTerm(c *ssa.Const) Val {
	t := c.Type()
	if c.Value == nil {
		// zero value / nil
		switch t.Underlying().(type) {
		case *types.Signature:
			return OpaqueV{"nil func", t}
		}
		if isErrorType(t) {
			return TV{IntC(0), t}
		}
		if _, ok := t.Underlying().(*types.Interface); ok {
			if us := unionSort(t); us != nil {
				return TV{MkCtor(us.Ctors[0]), t}
			}
			return IfaceV{nil, nil, t}
		}
		if b, ok := t.Underlying().(*types.Basic); ok && b.Kind() == types.UntypedNil {
			return TV{IntC(0), t}
		}
		return TV{ZeroOf(t), t}
	}
	switch c.Value.Kind() {
	case constant.Bool:
		return TV{BoolC(constant.BoolVal(c.Value)), t}
	case constant.Int:
		bi, ok := new(big.Int).SetString(c.Value.ExactString(), 10)
		if !ok {
			return OpaqueV{"const " + c.Value.ExactString(), t}
		}
		return TV{IntB(bi), t}
	case constant.String:
		return TV{StringConst(constant.StringVal(c.Value)), t}
	}
	return OpaqueV{"const kind " + c.Value.Kind().String(), t}
}

var strConsts = map[string]*Term{}
var strOf = map[*Term]string{}

// StringConst builds the slice term of a string literal (explicit stores for short strings).
func StringConst(s string) *Term {
	if t, ok := strConsts[s]; ok {
		return t
	}
	ss := SliceSort(types.Typ[types.Byte])
	arrS := ArraySort(SInt, SInt)
	var arr *Term
	if len(s) <= 64 {
		arr = ConstArray(arrS, IntC(0))
		for i := 0; i < len(s); i++ {
			arr = Store(arr, IntC(int64(i)), IntC(int64(s[i])))
		}
	} else {
		arr = Sym(fmt.Sprintf("strlit!%d", len(strConsts)), arrS)
	}
	t := MkSlice(ss, IntC(int64(len(s))), IntC(0), arr)
	strConsts[s] = t
	strOf[t] = s
	return t
}

func isUnsigned(t types.Type) bool {
	b, ok := t.Underlying().(*types.Basic)
	return ok && b.Info()&types.IsUnsigned != 0
}

func isInteger(t types.Type) bool {
	b, ok := t.Underlying().(*types.Basic)
	return ok && b.Info()&types.IsInteger != 0
}

func isString(t types.Type) bool {
	b, ok := t.Underlying().(*types.Basic)
	return ok && b.Info()&types.IsString != 0
}

// ---- INT-mode machine arithmetic ----

func wrapTo(x *Term, t types.Type) *Term {
	b := t.Underlying().(*types.Basic)
	lo, hi, ok := intRange(b)
	if !ok {
		return x
	}
	if x.Op == "int" {
		w, signed := intWidth(b)
		m := Pow2(w)
		v := new(big.Int).Mod(x.Int, m)
		if signed && v.Cmp(hi) > 0 {
			v.Sub(v, m)
		}
		return IntB(v)
	}
	if x.Rng != nil && x.Rng.Lo.Cmp(lo) >= 0 && x.Rng.Hi.Cmp(hi) <= 0 {
		return x
	}
	w, signed := intWidth(b)
	m := IntB(Pow2(w))
	if !signed {
		return WithRange(Mod(x, m), lo, hi)
	}
	half := IntB(Pow2(w - 1))
	return WithRange(Sub(Mod(Add(x, half), m), half), lo, hi)
}

var rangeMemo = map[*Term]*Range{}

// rangeOf gives a conservative range of a term if known (interval analysis over constants,
// typed atoms, sums, constant multiples and if-then-else).
func rangeOf(x *Term) *Range {
	if x.Op == "int" {
		return &Range{x.Int, x.Int}
	}
	if r, ok := rangeMemo[x]; ok {
		return r
	}
	var r *Range
	switch x.Op {
	case "ite":
		a, b := rangeOf(x.Args[1]), rangeOf(x.Args[2])
		if a != nil && b != nil {
			lo, hi := a.Lo, a.Hi
			if b.Lo.Cmp(lo) < 0 {
				lo = b.Lo
			}
			if b.Hi.Cmp(hi) > 0 {
				hi = b.Hi
			}
			r = &Range{lo, hi}
		}
	case "+":
		lo, hi := new(big.Int), new(big.Int)
		ok := true
		for _, a := range x.Args {
			ra := rangeOf(a)
			if ra == nil {
				ok = false
				break
			}
			lo.Add(lo, ra.Lo)
			hi.Add(hi, ra.Hi)
		}
		if ok {
			r = &Range{lo, hi}
		}
	case "*":
		if len(x.Args) == 2 && x.Args[0].Op == "int" {
			ra := rangeOf(x.Args[1])
			if ra != nil {
				a, b := new(big.Int).Mul(x.Args[0].Int, ra.Lo), new(big.Int).Mul(x.Args[0].Int, ra.Hi)
				if a.Cmp(b) > 0 {
					a, b = b, a
				}
				r = &Range{a, b}
			}
		}
	}
	if x.Rng != nil {
		if r == nil {
			r = x.Rng
		} else {
			lo, hi := r.Lo, r.Hi
			if x.Rng.Lo.Cmp(lo) > 0 {
				lo = x.Rng.Lo
			}
			if x.Rng.Hi.Cmp(hi) < 0 {
				hi = x.Rng.Hi
			}
			r = &Range{lo, hi}
		}
	}
	rangeMemo[x] = r
	return r
}

func arithBin(op token.Token, x, y *Term, t types.Type) (*Term, *Term) {
	// returns (result, safety condition or nil)
	b := t.Underlying().(*types.Basic)
	lo, hi, _ := intRange(b)
	w, signed := intWidth(b)
	m := IntB(Pow2(w))
	ranged := func(r *Term) *Term {
		if lo != nil {
			return WithRange(r, lo, hi)
		}
		return r
	}
	switch op {
	case token.ADD:
		s := Add(x, y)
		if s.Op == "int" {
			return wrapTo(s, t), nil
		}
		if !signed {
			return ranged(Ite(Lt(s, m), s, Sub(s, m))), nil
		}
		return ranged(Ite(Gt(s, IntB(hi)), Sub(s, m), Ite(Lt(s, IntB(lo)), Add(s, m), s))), nil
	case token.SUB:
		s := Sub(x, y)
		if s.Op == "int" {
			return wrapTo(s, t), nil
		}
		if !signed {
			return ranged(Ite(Ge(s, IntC(0)), s, Add(s, m))), nil
		}
		return ranged(Ite(Gt(s, IntB(hi)), Sub(s, m), Ite(Lt(s, IntB(lo)), Add(s, m), s))), nil
	case token.MUL:
		p := Mul(x, y)
		if p.Op == "int" {
			return wrapTo(p, t), nil
		}
		// small constant multiplier with known range: avoid mod when it cannot overflow
		rx, ry := rangeOf(x), rangeOf(y)
		if rx != nil && ry != nil && rx.Lo.Sign() >= 0 && ry.Lo.Sign() >= 0 {
			mx := new(big.Int).Mul(rx.Hi, ry.Hi)
			if mx.Cmp(hi) <= 0 {
				return WithRange(p, big.NewInt(0), mx), nil
			}
		}
		return wrapTo(p, t), nil
	case token.QUO:
		safe := Ne(y, IntC(0))
		if !signed {
			return ranged(Div(x, y)), safe
		}
		return ranged(wrapTo(truncDiv(x, y), t)), safe
	case token.REM:
		safe := Ne(y, IntC(0))
		if !signed {
			return ranged(Mod(x, y)), safe
		}
		return ranged(Sub(x, Mul(y, truncDiv(x, y)))), safe
	case token.SHL:
		if y.Op == "int" {
			k := int(y.Int.Int64())
			if k >= w {
				return IntC(0), nil
			}
			return wrapTo(Mul(x, IntB(Pow2(k))), t), nil
		}
		if x.Op == "int" {
			// constant << symbolic: a chain of constants
			return mapChain(pow2Term(y, w), func(c *Term) *Term { return wrapTo(Mul(x, c), t) }), nil
		}
		return ranged(wrapTo(Mul(x, pow2Term(y, w)), t)), nil
	case token.SHR:
		if y.Op == "int" {
			k := int(y.Int.Int64())
			if k >= w && !signed {
				return IntC(0), nil
			}
			return ranged(Div(x, IntB(Pow2(k)))), nil // floor division is arithmetic shift for signed too
		}
		return ranged(Div(x, pow2Term(y, w))), nil
	case token.AND:
		// x & (1<<k) with symbolic k: the mask is an ite-chain of constants; distribute
		if isConstChain(y, 0) && !isConstChain(x, 0) {
			return ranged(mapChain(y, func(c *Term) *Term { r, _ := arithBin(op, x, c, t); return r })), nil
		}
		if isConstChain(x, 0) && x.Op == "ite" && !isConstChain(y, 0) {
			return ranged(mapChain(x, func(c *Term) *Term { r, _ := arithBin(op, c, y, t); return r })), nil
		}
		if r, ok := bitTest(x, y); ok {
			return ranged(r), nil
		}
		if r, ok := bitTest(y, x); ok {
			return ranged(r), nil
		}
		if r, ok := maskAnd(x, y, w); ok {
			return ranged(r), nil
		}
		if r, ok := maskAnd(y, x, w); ok {
			return ranged(r), nil
		}
		return ranged(App(DeclUF(fmt.Sprintf("bitand%d", w), SInt, SInt, SInt), x, y)), nil
	case token.OR:
		if x.Op == "int" && x.Int.Sign() == 0 {
			return y, nil
		}
		if y.Op == "int" && y.Int.Sign() == 0 {
			return x, nil
		}
		if r, ok := disjointOr(x, y); ok {
			return ranged(r), nil
		}
		if r, ok := orHighBit(x, y); ok {
			return ranged(r), nil
		}
		if r, ok := orHighBit(y, x); ok {
			return ranged(r), nil
		}
		return ranged(App(DeclUF(fmt.Sprintf("bitor%d", w), SInt, SInt, SInt), x, y)), nil
	case token.XOR:
		return ranged(App(DeclUF(fmt.Sprintf("bitxor%d", w), SInt, SInt, SInt), x, y)), nil
	case token.AND_NOT:
		if y.Op == "int" && y.Int.Sign() >= 0 {
			p := new(big.Int).Add(y.Int, big.NewInt(1))
			if new(big.Int).And(p, y.Int).Sign() == 0 { // y = 2^k - 1: clear the low k bits
				return ranged(Sub(x, Mod(x, IntB(p)))), nil
			}
		}
		return ranged(App(DeclUF(fmt.Sprintf("bitandnot%d", w), SInt, SInt, SInt), x, y)), nil
	}
	panic("arithBin: " + op.String())
}

// maskAnd: x & (2^k - 1) == x mod 2^k
func maskAnd(x, y *Term, w int) (*Term, bool) {
	if y.Op != "int" || y.Int.Sign() < 0 {
		return nil, false
	}
	if x.Op == "int" && x.Int.Sign() >= 0 {
		return IntB(new(big.Int).And(x.Int, y.Int)), true
	}
	p := new(big.Int).Add(y.Int, big.NewInt(1))
	if p.BitLen() > 0 && new(big.Int).And(p, y.Int).Sign() == 0 { // p power of two
		rx := rangeOf(x)
		if rx != nil && rx.Lo.Sign() >= 0 {
			return Mod(x, IntB(p)), true
		}
	}
	return nil, false
}

// disjointOr: (a * 2^k) | b with 0 <= b < 2^k is a*2^k + b.  Recognised
// syntactically for shifts by constants.
func disjointOr(x, y *Term) (*Term, bool) {
	align := func(t *Term) int { // largest k with t ≡ 0 mod 2^k (syntactic)
		if t.Op == "*" && t.Args[0].Op == "int" {
			c := t.Args[0].Int
			if c.Sign() > 0 {
				return int(c.TrailingZeroBits())
			}
		}
		if t.Op == "mod" && t.Args[0].Op == "*" && t.Args[1].Op == "int" {
			in := t.Args[0]
			if in.Args[0].Op == "int" && in.Args[0].Int.Sign() > 0 {
				return int(in.Args[0].Int.TrailingZeroBits())
			}
		}
		return 0
	}
	below := func(t *Term, k int) bool {
		r := rangeOf(t)
		if r != nil && r.Lo.Sign() >= 0 && r.Hi.Cmp(Pow2(k)) < 0 {
			return true
		}
		if t.Op == "div" && t.Args[1].Op == "int" {
			r := rangeOf(t.Args[0])
			if r != nil && r.Lo.Sign() >= 0 {
				q := new(big.Int).Div(r.Hi, t.Args[1].Int)
				return q.Cmp(Pow2(k)) < 0
			}
		}
		return false
	}
	if k := align(x); k > 0 && below(y, k) {
		return Add(x, y), true
	}
	if k := align(y); k > 0 && below(x, k) {
		return Add(x, y), true
	}
	return nil, false
}

func truncDiv(x, y *Term) *Term {
	// Go: truncated toward zero
	return Ite(Ge(x, IntC(0)),
		Ite(Gt(y, IntC(0)), Div(x, y), Neg(Div(x, Neg(y)))),
		Ite(Gt(y, IntC(0)), Neg(Div(Neg(x), y)), Div(Neg(x), Neg(y))))
}

// pow2Term: 2^k for symbolic k in [0,w); 0 contribution handled by caller semantic (k>=w gives 0 for shl).
func pow2Term(k *Term, w int) *Term {
	var r *Term = IntC(0)
	// for k >= w: shifting left yields 0 (x*0), shifting right yields div by huge -> use 2^w
	r = IntB(Pow2(w))
	for i := w - 1; i >= 0; i-- {
		r = Ite(Eq(k, IntC(int64(i))), IntB(Pow2(i)), r)
	}
	return r
}

func convertInt(x *Term, from, to types.Type) *Term {
	return wrapTo(x, to)
}

// bitTest: x & 2^k == ((x div 2^k) mod 2) * 2^k   (x non-negative)
func bitTest(x, y *Term) (*Term, bool) {
	if y.Op != "int" || y.Int.Sign() <= 0 {
		return nil, false
	}
	k := y.Int.BitLen() - 1
	if Pow2(k).Cmp(y.Int) != 0 {
		return nil, false
	}
	// x = sum of independent bit terms ite(b_j, 2^j, 0) with distinct j: bit k is b_k
	if bits, ok := bitTerms(x); ok {
		if t, ok := bits[k]; ok {
			return t, true
		}
		return IntC(0), true
	}
	rx := rangeOf(x)
	if rx == nil || rx.Lo.Sign() < 0 {
		return nil, false
	}
	return Mul(y, Mod(Div(x, y), IntC(2))), true
}

// bitTerms recognises x = sum_j ite(b_j, 2^j, 0) (distinct j) and returns the terms by bit position.
func bitTerms(x *Term) (map[int]*Term, bool) {
	var args []*Term
	if x.Op == "+" {
		args = x.Args
	} else {
		args = []*Term{x}
	}
	out := map[int]*Term{}
	for _, a := range args {
		var c *big.Int
		switch {
		case a.Op == "ite" && a.Args[1].Op == "int" && a.Args[2].Op == "int" && a.Args[2].Int.Sign() == 0:
			c = a.Args[1].Int
		case a.Op == "ite" && a.Args[1].Op == "int" && a.Args[2].Op == "int" && a.Args[1].Int.Sign() == 0:
			c = a.Args[2].Int
		case a.Op == "int":
			c = a.Int
		default:
			return nil, false
		}
		if c.Sign() <= 0 {
			return nil, false
		}
		j := c.BitLen() - 1
		if Pow2(j).Cmp(c) != 0 {
			return nil, false
		}
		if _, dup := out[j]; dup {
			return nil, false
		}
		out[j] = a
	}
	return out, true
}

// orHighBit: x | 2^k == x + 2^k when 0 <= x < 2^k
func orHighBit(x, y *Term) (*Term, bool) {
	if y.Op != "int" || y.Int.Sign() <= 0 {
		return nil, false
	}
	k := y.Int.BitLen() - 1
	if Pow2(k).Cmp(y.Int) != 0 {
		return nil, false
	}
	if bits, ok := bitTerms(x); ok {
		if _, set := bits[k]; !set {
			return Add(x, y), true
		}
	}
	rx := rangeOf(x)
	if rx == nil || rx.Lo.Sign() < 0 || rx.Hi.Cmp(y.Int) >= 0 {
		return nil, false
	}
	return Add(x, y), true
}

// isConstChain: an ite-chain (as produced by pow2Term) whose leaves are integer constants.
func isConstChain(t *Term, depth int) bool {
	if depth > 70 {
		return false
	}
	if t.Op == "int" {
		return depth > 0
	}
	if t.Op == "ite" {
		return t.Args[1].Op == "int" && (t.Args[2].Op == "int" || isConstChain(t.Args[2], depth+1))
	}
	return false
}

func mapChain(t *Term, f func(*Term) *Term) *Term {
	if t.Op == "ite" {
		return Ite(t.Args[0], f(t.Args[1]), mapChain(t.Args[2], f))
	}
	return f(t)
}
