package main

// Evaluation of contract expressions over symbolic values.

import (
	"fmt"
	"os"
	"runtime/debug"

	"go/constant"
	"go/types"
	"golang.org/x/tools/go/ssa"
	"math/big"
	"strconv"
	"strings"
)

type SpecEnv struct {
	ex      *Exec
	fr      *Frame
	pkgPath string
	vars    map[string]Val
	lookup  func(string) (Val, bool)
	mem     Mem
	old     Mem
	oldVars map[string]Val
	bound   map[string]*Term
	depth   int
	// pending: instances `requires ==> ensures` of abstract functions applied under the
	// innermost enclosing quantifier (they mention its bound variable, so they are stated
	// inside it: valid formulas, added as antecedents / conjuncts of the body)
	pending *[]*Term
	// quantInst enables those instances; it is set where a callee's precondition is evaluated
	// at a call site (the place where a quantified requirement about an abstract lookup has to
	// be derived from that lookup's postcondition)
	quantInst bool
}

type specErr struct{ msg string }

func (e *SpecEnv) fail(format string, a ...any) {
	if os.Getenv("GOVC_SPECTRACE") != "" {
		debug.PrintStack()
	}
	panic(specErr{fmt.Sprintf(format, a...)})
}

func (e *SpecEnv) child() *SpecEnv {
	c := *e
	c.vars = map[string]Val{}
	for k, v := range e.vars {
		c.vars[k] = v
	}
	return &c
}

// EvalBool evaluates a clause to a boolean term; errors are returned.
func (e *SpecEnv) EvalBool(x *SExpr) (t *Term, err error) {
	defer func() {
		if r := recover(); r != nil {
			if se, ok := r.(specErr); ok {
				err = fmt.Errorf("%s (in %q)", se.msg, x.Src)
				return
			}
			panic(r)
		}
	}()
	v := e.eval(x)
	tv, ok := v.(TV)
	if !ok || tv.T.Sort != SBool {
		return nil, fmt.Errorf("clause is not boolean: %q", x.Src)
	}
	return tv.T, nil
}

func (e *SpecEnv) EvalTerm(x *SExpr) (t *Term, err error) {
	defer func() {
		if r := recover(); r != nil {
			if se, ok := r.(specErr); ok {
				err = fmt.Errorf("%s (in %q)", se.msg, x.Src)
				return
			}
			panic(r)
		}
	}()
	return e.term(e.eval(x)), nil
}

func mathInt(t *Term) Val { return TV{t, nil} }
func boolV(t *Term) Val   { return TV{t, types.Typ[types.Bool]} }

func (e *SpecEnv) term(v Val) *Term {
	switch x := v.(type) {
	case TV:
		return x.T
	case MapV:
		if t := e.mem[x.Cell]; t != nil {
			return t
		}
		e.fail("map not in memory")
	case PtrV:
		// pointer used as a value: its current pointee
		return e.loadPtr(x)
	case ValPtr:
		return x.Root
	case SliceV:
		m := e.mem
		cv := m[x.Cell]
		if cv == nil {
			e.fail("slice cell not in memory")
		}
		var arr *Term
		if x.Cell.Dyn {
			arr = cv
			if len(x.Path) > 0 {
				arr, _ = projectDyn(cv, x.Cell.Typ, x.Path)
			}
		} else {
			arr, _ = project(cv, x.Cell.Typ, x.Path)
		}
		return MkSlice(SortOf(x.Typ), Sub(x.Hi, x.Lo), x.Lo, arr)
	case IfaceV:
		if isErrorType(x.Typ) {
			if x.Dyn == nil {
				return IntC(0)
			}
			return IntC(1)
		}
	}
	e.fail("value of kind %T cannot be used in a specification", v)
	return nil
}

func (e *SpecEnv) loadPtr(p PtrV) *Term {
	cv := e.mem[p.Cell]
	if cv == nil {
		e.fail("cell %s not in memory", p.Cell.Name)
	}
	if p.Cell.Dyn {
		t, _ := projectDyn(cv, p.Cell.Typ, p.Path)
		return t
	}
	t, _ := project(cv, p.Cell.Typ, p.Path)
	return t
}

func (e *SpecEnv) typeOf(v Val) types.Type {
	switch x := v.(type) {
	case TV:
		return x.Typ
	case PtrV:
		return types.NewPointer(x.Elem)
	case ValPtr:
		return types.NewPointer(x.Elem)
	case SliceV:
		return x.Typ
	case MapV:
		return x.Typ
	}
	return nil
}

// deref: auto-dereference pointers to get a struct/array value.
func (e *SpecEnv) deref(v Val) (*Term, types.Type) {
	switch x := v.(type) {
	case PtrV:
		return e.loadPtr(x), x.Elem
	case ValPtr:
		return x.Root, x.Elem
	case TV:
		if x.Typ != nil {
			if p, ok := x.Typ.Underlying().(*types.Pointer); ok {
				return PtrVal(x.T), p.Elem()
			}
		}
		return x.T, x.Typ
	case SliceV:
		return e.term(x), x.Typ
	case MapV:
		return e.term(x), x.Typ
	}
	e.fail("cannot dereference %T", v)
	return nil, nil
}

func (e *SpecEnv) eval(x *SExpr) Val {
	switch x.Op {
	case "num":
		return mathInt(IntB(x.N))
	case "str":
		return TV{StringConst(x.S), types.Typ[types.String]}
	case "id":
		return e.ident(x.S)
	case "un":
		switch x.S {
		case "!":
			return boolV(Not(e.term(e.eval(x.Args[0]))))
		case "-":
			return mathInt(Neg(e.term(e.eval(x.Args[0]))))
		case "*":
			t, typ := e.deref(e.eval(x.Args[0]))
			return TV{t, typ}
		}
	case "bin":
		return e.binary(x)
	case "tern":
		c := e.term(e.eval(x.Args[0]))
		a, b := e.eval(x.Args[1]), e.eval(x.Args[2])
		ta, tb := e.term(a), e.term(b)
		if ta.Sort != tb.Sort {
			e.fail("ternary branches have different sorts")
		}
		return TV{Ite(c, ta, tb), e.typeOf(a)}
	case "sel":
		return e.selector(x)
	case "idx":
		base := e.eval(x.Args[0])
		i := e.term(e.eval(x.Args[1]))
		t, typ := e.deref(base)
		if typ == nil {
			// spec-level array
			if t.Sort.Kind == KArray {
				return TV{Select(t, i), nil}
			}
			e.fail("index of untyped value")
		}
		switch u := typ.Underlying().(type) {
		case *types.Slice:
			return TV{Typed(SliceAt(t, i), u.Elem()), u.Elem()}
		case *types.Array:
			return TV{Typed(Select(t, i), u.Elem()), u.Elem()}
		case *types.Basic:
			if u.Info()&types.IsString != 0 {
				return TV{Typed(SliceAt(t, i), types.Typ[types.Byte]), types.Typ[types.Byte]}
			}
		case *types.Map:
			c := t.Sort.Ctors[0]
			return TV{Typed(Select(SelField(c, 1, t), i), u.Elem()), u.Elem()}
		}
		e.fail("cannot index %s", typ)
	case "slice":
		t, typ := e.deref(e.eval(x.Args[0]))
		var lo, hi *Term = IntC(0), nil
		if x.Args[1] != nil {
			lo = e.term(e.eval(x.Args[1]))
		}
		if x.Args[2] != nil {
			hi = e.term(e.eval(x.Args[2]))
		}
		switch u := typ.Underlying().(type) {
		case *types.Slice:
			if hi == nil {
				hi = SliceLen(t)
			}
			return TV{MkSlice(t.Sort, Sub(hi, lo), Add(SliceOff(t), lo), SliceArr(t)), typ}
		case *types.Array:
			if hi == nil {
				hi = IntC(u.Len())
			}
			st := types.NewSlice(u.Elem())
			return TV{MkSlice(SortOf(st), Sub(hi, lo), lo, t), st}
		}
		e.fail("cannot slice %s", typ)
	case "call":
		return e.call(x)
	case "forallT", "existsT":
		gt, err := e.ex.P.resolveTypeExpr(e.pkgPath, x.Args[0].S)
		if err != nil {
			e.fail("quantifier type: %v", err)
		}
		var bv *Term
		c := e.child()
		c.depth = e.depth + 1
		if gt == nil {
			bv = Sym("$"+x.S+"!"+strconv.Itoa(e.depth), SInt)
			c.vars[x.S] = mathInt(bv)
		} else {
			bv = Sym("$"+x.S+"!"+strconv.Itoa(e.depth)+"!"+SortOf(gt).Name, SortOf(gt))
			c.vars[x.S] = TV{bv, gt}
		}
		var pend []*Term
		c.pending = &pend
		body := c.term(c.eval(x.Args[1]))
		facts := append(boundRangeFacts(body, bv), pend...)
		if x.Op == "forallT" {
			return boolV(Forall([]*Term{bv}, Implies(And(facts...), body)))
		}
		return boolV(Exists([]*Term{bv}, And(append([]*Term{body}, facts...)...)))
	case "forall", "exists":
		lo := e.term(e.eval(x.Args[0]))
		hi := e.term(e.eval(x.Args[1]))
		bv := Sym("$"+x.S+"!"+strconv.Itoa(e.depth), SInt)
		c := e.child()
		c.depth = e.depth + 1
		c.vars[x.S] = mathInt(bv)
		var pend []*Term
		c.pending = &pend
		body := c.term(c.eval(x.Args[2]))
		// typing facts for atoms that depend on the bound variable
		facts := append(boundRangeFacts(body, bv), pend...)
		rng := And(Le(lo, bv), Lt(bv, hi))
		if x.Op == "forall" {
			return boolV(Forall([]*Term{bv}, Implies(And(append([]*Term{rng}, facts...)...), body)))
		}
		return boolV(Exists([]*Term{bv}, And(append([]*Term{rng, body}, facts...)...)))
	}
	e.fail("cannot evaluate %s %s", x.Op, x.S)
	return nil
}

// boundRangeFacts: typing facts of the atoms of a quantifier body that depend on its bound
// variable; atoms that also mention a variable bound by a nested quantifier belong to that
// quantifier (stating them here would leave its variable free).
func boundRangeFacts(body, bv *Term) []*Term {
	var inner []*Term
	collect([]*Term{body}, func(t *Term) {
		if t.Op == "forall" || t.Op == "exists" || t.Op == "lam" {
			inner = append(inner, t.Bnd...)
		}
	})
	var facts []*Term
	collect([]*Term{body}, func(t *Term) {
		if t.Rng != nil && t.Sort == SInt && isAtom(t) && dependsOn(t, bv) && !dependsOnAny(t, inner) {
			facts = append(facts, rangeFact(t))
		}
	})
	return facts
}

func isAtom(t *Term) bool {
	switch t.Op {
	case "sym", "select", "sel", "app":
		return true
	}
	return false
}

func dependsOn(t, v *Term) bool {
	found := false
	collect([]*Term{t}, func(x *Term) {
		if x == v {
			found = true
		}
	})
	return found
}

func (e *SpecEnv) ident(name string) Val {
	if v, ok := e.vars[name]; ok {
		return v
	}
	if e.lookup != nil {
		if v, ok := e.lookup(name); ok {
			return v
		}
	}
	switch name {
	case "true":
		return boolV(TTrue)
	case "false":
		return boolV(TFalse)
	case "nil":
		return TV{IntC(0), types.Typ[types.UntypedNil]}
	}
	st := e.ex.P.Store
	if c, ok := st.Consts[e.pkgPath+"."+name]; ok {
		return e.eval(c)
	}
	// Go package-level constant
	if pk := e.ex.P.ByPath[e.pkgPath]; pk != nil {
		if o := pk.Types.Scope().Lookup(name); o != nil {
			if v, ok := e.goObject(o); ok {
				return v
			}
		}
	}
	e.fail("unknown identifier %q", name)
	return nil
}

func (e *SpecEnv) goObject(o types.Object) (Val, bool) {
	switch c := o.(type) {
	case *types.Const:
		switch c.Val().Kind() {
		case constant.Int:
			bi, _ := new(big.Int).SetString(c.Val().ExactString(), 10)
			return TV{IntB(bi), c.Type()}, true
		case constant.Bool:
			return boolV(BoolC(constant.BoolVal(c.Val()))), true
		case constant.String:
			return TV{StringConst(constant.StringVal(c.Val())), c.Type()}, true
		}
	case *types.Var:
		// package-level variable: immutable symbolic global (same term the executor uses: the
		// evaluated initialiser for single-assignment specifier / integer variables)
		if sp := e.ex.P.SSA.Package(c.Pkg()); sp != nil {
			if g, ok := sp.Members[c.Name()].(*ssa.Global); ok {
				var got *Term
				func() {
					defer func() { recover() }()
					got = e.ex.P.specifierConst(g)
				}()
				if got != nil {
					return TV{got, c.Type()}, true
				}
			}
		}
		name := "global:" + c.Pkg().Name() + "." + c.Name()
		return TV{Sym(name, SortOf(c.Type())), c.Type()}, true
	}
	return nil, false
}

func (e *SpecEnv) selector(x *SExpr) Val {
	// package-qualified identifier?
	if x.Args[0].Op == "id" {
		if _, isVar := e.vars[x.Args[0].S]; !isVar {
			known := false
			if e.lookup != nil {
				_, known = e.lookup(x.Args[0].S)
			}
			if !known {
				if pk := e.ex.P.findPkgByName(e.pkgPath, x.Args[0].S); pk != nil {
					if o := pk.Types.Scope().Lookup(x.S); o != nil {
						if v, ok := e.goObject(o); ok {
							return v
						}
					}
					if c, ok := e.ex.P.Store.Consts[pk.PkgPath+"."+x.S]; ok {
						return e.eval(c)
					}
					e.fail("unknown qualified identifier %s.%s", x.Args[0].S, x.S)
				}
			}
		}
	}
	base := e.eval(x.Args[0])
	if tup, ok := base.(TupleV); ok {
		i, err := strconv.Atoi(x.S)
		if err != nil || i >= len(tup) {
			e.fail("bad tuple index %s", x.S)
		}
		return tup[i]
	}
	t, typ := e.deref(base)
	if typ == nil {
		e.fail("field %s of untyped value", x.S)
	}
	path, ft, ok := fieldPathByName(typ, x.S)
	if !ok {
		e.fail("type %s has no field %s", typ, x.S)
	}
	cur := typ
	for _, fi := range path {
		if p, ok := cur.Underlying().(*types.Pointer); ok {
			t = PtrVal(t)
			cur = p.Elem()
		}
		st := cur.Underlying().(*types.Struct)
		t = SelField(structCtor(cur), fi, t)
		cur = st.Field(fi).Type()
	}
	return TV{Typed(t, ft), ft}
}

func (e *SpecEnv) binary(x *SExpr) Val {
	switch x.S {
	case "&&":
		a := e.term(e.eval(x.Args[0]))
		if a.IsFalse() {
			if os.Getenv("GOVC_SPLIT") != "" {
				fmt.Fprintf(os.Stderr, "CONJUNCT-FALSE: %s\n", sexprString(x.Args[0]))
			}
			return boolV(TFalse)
		}
		b := e.term(e.eval(x.Args[1]))
		if b.IsFalse() && os.Getenv("GOVC_SPLIT") != "" {
			fmt.Fprintf(os.Stderr, "CONJUNCT-FALSE: %s\n", sexprString(x.Args[1]))
		}
		return boolV(And(a, b))
	case "||":
		a := e.term(e.eval(x.Args[0]))
		if a.IsTrue() {
			return boolV(TTrue)
		}
		return boolV(Or(a, e.term(e.eval(x.Args[1]))))
	case "==>":
		a := e.term(e.eval(x.Args[0]))
		if a.IsFalse() {
			return boolV(TTrue)
		}
		return boolV(Implies(a, e.term(e.eval(x.Args[1]))))
	case "<==>":
		return boolV(Eq(e.term(e.eval(x.Args[0])), e.term(e.eval(x.Args[1]))))
	}
	av, bv := e.eval(x.Args[0]), e.eval(x.Args[1])
	a, b := e.term(av), e.term(bv)
	switch x.S {
	case "==", "!=":
		// nil comparisons on pointers / slices / maps
		if isNilVal(bv) {
			a, b = e.nilCompare(av, a)
		} else if isNilVal(av) {
			b, a = e.nilCompare(bv, b)
		}
		if a.Sort != b.Sort {
			e.fail("comparison of different sorts: %s vs %s", a.Sort, b.Sort)
		}
		if x.S == "==" {
			return boolV(Eq(a, b))
		}
		return boolV(Ne(a, b))
	}
	if a.Sort != SInt || b.Sort != SInt {
		e.fail("arithmetic on non-integers (%s %s %s)", a.Sort, x.S, b.Sort)
	}
	switch x.S {
	case "<":
		return boolV(Lt(a, b))
	case "<=":
		return boolV(Le(a, b))
	case ">":
		return boolV(Gt(a, b))
	case ">=":
		return boolV(Ge(a, b))
	case "+":
		return mathInt(Add(a, b))
	case "-":
		return mathInt(Sub(a, b))
	case "*":
		return mathInt(Mul(a, b))
	case "/":
		return mathInt(Div(a, b))
	case "%":
		return mathInt(Mod(a, b))
	case "^":
		if b.Op != "int" || !b.Int.IsInt64() || b.Int.Int64() < 0 || b.Int.Int64() > 4096 {
			e.fail("exponent must be a small constant")
		}
		if a.Op == "int" {
			return mathInt(IntB(new(big.Int).Exp(a.Int, b.Int, nil)))
		}
		r := IntC(1)
		for i := int64(0); i < b.Int.Int64(); i++ {
			r = Mul(r, a)
		}
		return mathInt(r)
	}
	e.fail("unknown operator %s", x.S)
	return nil
}

func isNilVal(v Val) bool {
	tv, ok := v.(TV)
	if !ok || tv.Typ == nil {
		return false
	}
	b, ok := tv.Typ.(*types.Basic)
	return ok && b.Kind() == types.UntypedNil
}

// nilCompare returns (x', nil') terms of equal sort so that x' == nil' iff x is nil.
func (e *SpecEnv) nilCompare(v Val, t *Term) (*Term, *Term) {
	if t.Sort == SInt {
		return t, IntC(0)
	}
	if t.Sort.Kind == KDT && len(t.Sort.Ctors) == 2 {
		return t, PtrNil(t.Sort)
	}
	if t.Sort.Kind == KDT && strings.HasPrefix(t.Sort.Name, "Slice<") {
		return Ite(SliceIsNil(t), IntC(0), IntC(1)), IntC(0)
	}
	if _, ok := v.(PtrV); ok {
		return IntC(1), IntC(0) // cell pointers are never nil
	}
	if unionCases[t.Sort] != nil {
		return Ite(IsCtor(t.Sort.Ctors[0], t), IntC(0), IntC(1)), IntC(0)
	}
	e.fail("nil comparison on sort %s", t.Sort)
	return nil, nil
}

func (e *SpecEnv) call(x *SExpr) Val {
	fn := x.Args[0]
	args := x.Args[1:]
	name := ""
	pkgQual := ""
	if fn.Op == "id" {
		name = fn.S
	} else if fn.Op == "sel" && fn.Args[0].Op == "id" {
		if _, isVar := e.vars[fn.Args[0].S]; !isVar {
			known := false
			if e.lookup != nil {
				_, known = e.lookup(fn.Args[0].S)
			}
			if !known {
				pkgQual, name = fn.Args[0].S, fn.S
			}
		}
	}
	if pkgQual == "" && (name == "isa" || name == "asa") && len(args) == 2 {
		v := e.eval(args[0])
		t := e.term(v)
		ucs := unionCases[t.Sort]
		if ucs == nil {
			e.fail("%s: not a sealed interface value", name)
		}
		tname := ""
		switch args[1].Op {
		case "id":
			tname = args[1].S
		case "sel":
			tname = args[1].S
		}
		for i := range ucs {
			nt, _ := ucs[i].Elem.(*types.Named)
			if nt != nil && nt.Obj().Name() == tname {
				if name == "isa" {
					return boolV(IsCtor(ucs[i].Ctor, t))
				}
				return TV{Typed(SelField(ucs[i].Ctor, 0, t), ucs[i].Elem), ucs[i].Elem}
			}
		}
		e.fail("%s: %s is not an implementer", name, tname)
	}
	if pkgQual == "" {
		switch name {
		case "old":
			c := *e
			c.mem = e.old
			if e.oldVars != nil {
				c.vars = map[string]Val{}
				for k, v := range e.vars {
					c.vars[k] = v
				}
				for k, v := range e.oldVars {
					c.vars[k] = v
				}
			}
			return c.eval(args[0])
		case "len":
			v := e.eval(args[0])
			t, typ := e.deref(v)
			if typ == nil {
				e.fail("len of untyped value")
			}
			switch u := typ.Underlying().(type) {
			case *types.Slice:
				return mathInt(SliceLen(t))
			case *types.Basic:
				return mathInt(SliceLen(t))
			case *types.Array:
				return mathInt(IntC(u.Len()))
			case *types.Map:
				return mathInt(SelField(t.Sort.Ctors[0], 2, t))
			}
			e.fail("len of %s", typ)
		case "min", "max":
			a, b := e.term(e.eval(args[0])), e.term(e.eval(args[1]))
			if name == "min" {
				return mathInt(Ite(Le(a, b), a, b))
			}
			return mathInt(Ite(Ge(a, b), a, b))
		case "pow2":
			k := e.term(e.eval(args[0]))
			if k.Op == "int" {
				return mathInt(IntB(Pow2(int(k.Int.Int64()))))
			}
			return mathInt(pow2Term(k, 65))
		case "abs":
			a := e.term(e.eval(args[0]))
			return mathInt(Ite(Ge(a, IntC(0)), a, Neg(a)))
		case "ite":
			c := e.term(e.eval(args[0]))
			a, b := e.eval(args[1]), e.eval(args[2])
			return TV{Ite(c, e.term(a), e.term(b)), e.typeOf(a)}
		case "int", "uint64", "int64", "uint8", "uint32", "uint16", "uint", "byte":
			v := e.term(e.eval(args[0]))
			if name == "int" {
				return mathInt(v)
			}
			t := types.Universe.Lookup(name).Type()
			return TV{wrapTo(v, t), t}
		case "has":
			// has(m, k): map membership
			m, _ := e.deref(e.eval(args[0]))
			k := e.term(e.eval(args[1]))
			return boolV(Select(SelField(m.Sort.Ctors[0], 0, m), k))
		case "iszero":
			v := e.eval(args[0])
			t := e.term(v)
			typ := e.typeOf(v)
			if typ == nil {
				return boolV(Eq(t, IntC(0)))
			}
			return boolV(Eq(t, zeroOfSort(t.Sort, typ)))
		case "isnil":
			v := e.eval(args[0])
			t := e.term(v)
			a, b := e.nilCompare(v, t)
			return boolV(Eq(a, b))
		case "deref":
			t, typ := e.deref(e.eval(args[0]))
			return TV{t, typ}
		}
	}
	// spec function
	st := e.ex.P.Store
	pkgPath := e.pkgPath
	if pkgQual != "" {
		if pk := e.ex.P.findPkgByName(e.pkgPath, pkgQual); pk != nil {
			pkgPath = pk.PkgPath
		} else {
			e.fail("unknown package %s (vars: %s)", pkgQual, debugVars(e))
		}
	}
	if name != "" {
		if sf, ok := st.Specs[pkgPath+"."+name]; ok {
			var vals []Val
			for _, a := range args {
				vals = append(vals, e.eval(a))
			}
			return e.applySpec(sf, vals)
		}
		// abstract Go function: uninterpreted application
		for _, key := range []string{pkgPath + "." + name} {
			if c, ok := st.Funcs[key]; ok && c.Abstract {
				var ts []*Term
				gf := e.ex.P.Funcs[key]
				for i, a := range args {
					v := e.eval(a)
					t := e.term(v)
					// a pointer parameter takes the pointer value, as at call sites in code
					if gf != nil && i < gf.Signature.Params().Len() {
						if pt, isP := gf.Signature.Params().At(i).Type().Underlying().(*types.Pointer); isP {
							if pv, ok := v.(PtrV); ok {
								t = PtrRef(PtrSort(pv.Elem), e.loadPtr(pv))
							} else if ps := PtrSort(pt.Elem()); t.Sort != ps && t.Sort == SortOf(pt.Elem()) {
								t = PtrRef(ps, t)
							}
						}
					}
					ts = append(ts, t)
				}
				r := e.ex.abstractApp(key, ts)
				e.instantiate(key, c, ts, r)
				return r
			}
		}
	}
	// method-style call on a value: x.M(args) where M is an abstract/spec method
	if fn.Op == "sel" && pkgQual == "" {
		recv := e.eval(fn.Args[0])
		rt := e.typeOf(recv)
		if rt != nil {
			bt := rt
			ptr := false
			if p, ok := bt.Underlying().(*types.Pointer); ok {
				bt = p.Elem()
				ptr = true
			}
			if nt, ok := bt.(*types.Named); ok {
				pp := nt.Obj().Pkg().Path()
				for _, key := range []string{"(" + pp + "." + nt.Obj().Name() + ")." + fn.S, "(*" + pp + "." + nt.Obj().Name() + ")." + fn.S} {
					if c, ok := st.Funcs[key]; ok && c.Abstract {
						var ts []*Term
						rv, _ := e.deref(recv)
						if _, isP := rt.Underlying().(*types.Pointer); !isP {
							if tv, ok := recv.(TV); ok {
								rv = tv.T
							}
						}
						_ = ptr
						if strings.HasPrefix(key, "(*") {
							ts = append(ts, PtrRef(PtrSort(bt), rv))
						} else {
							ts = append(ts, rv)
						}
						for _, a := range args {
							ts = append(ts, e.term(e.eval(a)))
						}
						r := e.ex.abstractApp(key, ts)
						e.instantiate(key, c, ts, r)
						return r
					}
				}
				// spec method: spec name "Type.Method"
				if sf, ok := st.Specs[pp+"."+nt.Obj().Name()+"_"+fn.S]; ok {
					vals := []Val{recv}
					for _, a := range args {
						vals = append(vals, e.eval(a))
					}
					return e.applySpec(sf, vals)
				}
			}
		}
	}
	// pure call of a Go function/method of the module: evaluated by the symbolic executor
	if r, ok := e.pureCall(fn, args, pkgQual, name); ok {
		return r
	}
	e.fail("unknown function in specification: %s", x.Args[0].S)
	return nil
}

// pureCall evaluates a call to a (side-effect free) Go function of the module inside a
// specification by executing its body symbolically; obligations raised inside are dropped
// (the function's own contract check covers them), assumptions about callee results are kept.
func (e *SpecEnv) pureCall(fn *SExpr, args []*SExpr, pkgQual, name string) (Val, bool) {
	ex := e.ex
	var f *ssa.Function
	var vals []Val
	if fn.Op == "sel" && pkgQual == "" {
		recv := e.eval(fn.Args[0])
		rt := e.typeOf(recv)
		if rt == nil {
			return nil, false
		}
		bt := rt
		if p, ok := bt.Underlying().(*types.Pointer); ok {
			bt = p.Elem()
		}
		nt, ok := bt.(*types.Named)
		if !ok {
			return nil, false
		}
		pp := nt.Obj().Pkg().Path()
		if f = ex.P.Funcs["("+pp+"."+nt.Obj().Name()+")."+fn.S]; f != nil {
			t, _ := e.deref(recv)
			if tv, ok := recv.(TV); ok {
				if _, isP := rt.Underlying().(*types.Pointer); !isP {
					t = tv.T
				}
			}
			vals = append(vals, TV{t, bt})
		} else if f = ex.P.Funcs["(*"+pp+"."+nt.Obj().Name()+")."+fn.S]; f != nil {
			t, _ := e.deref(recv)
			vals = append(vals, ValPtr{Root: t, Elem: bt})
		}
	} else if name != "" {
		pkgPath := e.pkgPath
		if pkgQual != "" {
			if pk := ex.P.findPkgByName(e.pkgPath, pkgQual); pk != nil {
				pkgPath = pk.PkgPath
			}
		}
		f = ex.P.Funcs[pkgPath+"."+name]
	}
	if f == nil || f.Blocks == nil || f.Pkg == nil || !strings.HasPrefix(f.Pkg.Pkg.Path(), modPath) {
		return nil, false
	}
	for _, a := range args {
		vals = append(vals, e.eval(a))
	}
	if len(vals) != len(f.Params) || ex.depth > 6 {
		return nil, false
	}
	nObl := len(ex.Obls)
	sub := &Frame{ex: ex, fn: f, con: ex.P.Store.Funcs[f.String()], prefix: "spec-call/"}
	ex.depth++
	savedMay := ex.MayPanic
	ex.MayPanic = true
	sub.run(vals, nil, e.mem.clone(), TTrue)
	ex.MayPanic = savedMay
	ex.depth--
	ex.Obls = ex.Obls[:nObl]
	if len(sub.rets) == 0 {
		return nil, false
	}
	var gs []*Term
	for _, r := range sub.rets {
		gs = append(gs, r.guard)
	}
	n := f.Signature.Results().Len()
	if n == 1 {
		var vs []Val
		for _, r := range sub.rets {
			vs = append(vs, r.vals[0])
		}
		return mergeVals(gs, vs), true
	}
	tup := make(TupleV, n)
	for i := 0; i < n; i++ {
		var vs []Val
		for _, r := range sub.rets {
			vs = append(vs, r.vals[i])
		}
		tup[i] = mergeVals(gs, vs)
	}
	return tup, true
}

func (e *SpecEnv) applySpec(sf *SpecFunc, args []Val) Val {
	if len(args) != len(sf.Params) {
		e.fail("spec %s: expected %d arguments", sf.Name, len(sf.Params))
	}
	retT, err := e.ex.P.resolveTypeExpr(sf.PkgPath, sf.Ret)
	if err != nil {
		e.fail("spec %s: %v", sf.Name, err)
	}
	if sf.Opaque || sf.Rec {
		var ts []*Term
		var sorts []*Sort
		for _, a := range args {
			t := e.term(a)
			ts = append(ts, t)
			sorts = append(sorts, t.Sort)
		}
		rs := SInt
		if retT != nil {
			rs = SortOf(retT)
		}
		uf := DeclUF("spec:"+sf.PkgPath+"."+sf.Name, rs, sorts...)
		if sf.Rec {
			e.ex.needRec(sf, uf)
		}
		return TV{App(uf, ts...), retT}
	}
	c := &SpecEnv{ex: e.ex, fr: e.fr, pkgPath: sf.PkgPath, vars: map[string]Val{}, mem: e.mem, old: e.old, depth: e.depth}
	for i, p := range sf.Params {
		c.vars[p.Name] = args[i]
	}
	r := c.eval(sf.Body)
	if tv, ok := r.(TV); ok {
		return TV{tv.T, retT}
	}
	return r
}

func (ex *Exec) abstractApp(key string, args []*Term) Val {
	fn := ex.P.Funcs[key]
	var res *types.Tuple
	if fn == nil {
		// a method of an interface type: "(pkg.Iface).Method"
		if sig := ex.P.ifaceMethodSig(key); sig != nil {
			res = sig.Results()
		} else {
			panic(specErr{"abstract function not found: " + key})
		}
	} else {
		res = fn.Signature.Results()
	}
	var sorts []*Sort
	for _, a := range args {
		sorts = append(sorts, a.Sort)
	}
	one := func(i int) Val {
		rt := res.At(i).Type()
		name := "fn:" + shortName(key)
		if res.Len() > 1 {
			name = fmt.Sprintf("%s.%d", name, i)
		}
		uf := DeclUF(name, SortOf(rt), sorts...)
		return TV{Typed(App(uf, args...), rt), rt}
	}
	if res.Len() == 1 {
		return one(0)
	}
	tup := make(TupleV, res.Len())
	for i := range tup {
		tup[i] = one(i)
	}
	return tup
}

func (ex *Exec) needRec(sf *SpecFunc, uf *UF) {
	if ex.Recs == nil {
		ex.Recs = map[string]*RecDef{}
	}
	if _, ok := ex.Recs[uf.Name]; ok {
		return
	}
	rd := &RecDef{UF: uf}
	ex.Recs[uf.Name] = rd
	env := &SpecEnv{ex: ex, pkgPath: sf.PkgPath, vars: map[string]Val{}, mem: Mem{}, old: Mem{}}
	for i, p := range sf.Params {
		pt, err := ex.P.resolveTypeExpr(sf.PkgPath, p.Type)
		if err != nil {
			panic(specErr{fmt.Sprintf("spec %s: %v", sf.Name, err)})
		}
		s := Sym(fmt.Sprintf("%s$%s", sf.Name, p.Name), uf.Args[i])
		rd.Params = append(rd.Params, s)
		env.vars[p.Name] = TV{s, pt}
	}
	rd.Body = env.term(env.eval(sf.Body))
}

// instantiateAbstract: an abstract function's proved postconditions hold for every argument
// tuple satisfying its preconditions; when a specification mentions an application, the
// instance `requires ==> ensures` for exactly those arguments is added to the assumptions.
func (ex *Exec) instantiateAbstract(key string, con *Contract, args []*Term, res Val) {
	if len(con.Ensures) == 0 {
		return
	}
	if ex.absDone == nil {
		ex.absDone = map[string]bool{}
	}
	var sb strings.Builder
	sb.WriteString(key)
	for _, a := range args {
		fmt.Fprintf(&sb, ",%d", a.id)
	}
	if ex.absDone[sb.String()] {
		return
	}
	ex.absDone[sb.String()] = true
	ex.Assumes = append(ex.Assumes, ex.abstractInstances(key, con, args, res, 0)...)
}

// instantiate: at depth 0 the instance is a global assumption; under a quantifier it joins the
// pending list of the innermost one.
func (e *SpecEnv) instantiate(key string, con *Contract, args []*Term, res Val) {
	if os.Getenv("GOVC_SPECTRACE") != "" {
		fmt.Fprintln(os.Stderr, "instantiate", key, "depth", e.depth, "pending", e.pending != nil)
	}
	if e.depth == 0 || e.pending == nil || !e.quantInst {
		if e.depth == 0 {
			e.ex.instantiateAbstract(key, con, args, res)
		}
		return
	}
	for _, t := range e.ex.abstractInstances(key, con, args, res, e.depth) {
		dup := false
		for _, o := range *e.pending {
			if o == t {
				dup = true
			}
		}
		if !dup {
			*e.pending = append(*e.pending, t)
		}
	}
}

// abstractInstances evaluates `requires ==> ensures` of an abstract function for one argument
// tuple; quantifiers of the contract bind variables numbered from depth upwards, so they cannot
// capture the bound variables of the context the arguments come from.
func (ex *Exec) abstractInstances(key string, con *Contract, args []*Term, res Val, depth int) []*Term {
	fn := ex.P.Funcs[key]
	if fn == nil || len(fn.Params) != len(args) || len(con.Ensures) == 0 {
		return nil
	}
	env := &SpecEnv{ex: ex, pkgPath: con.PkgPath, vars: map[string]Val{}, mem: Mem{}, old: Mem{}, depth: depth}
	for i, p := range fn.Params {
		env.vars[p.Name()] = TV{args[i], p.Type()}
	}
	var pre []*Term
	for _, cl := range con.Requires {
		t, err := env.EvalBool(cl.Expr)
		if err != nil {
			if os.Getenv("GOVC_SPECTRACE") != "" {
				fmt.Fprintln(os.Stderr, "abstractInstances", key, "requires:", err)
			}
			return nil
		}
		pre = append(pre, t)
	}
	bindResults(env.vars, fn, res)
	var out []*Term
	for _, cl := range con.Ensures {
		t, err := env.EvalBool(cl.Expr)
		if err != nil {
			if os.Getenv("GOVC_SPECTRACE") != "" {
				fmt.Fprintln(os.Stderr, "abstractInstances", key, "ensures", cl.Label, ":", err)
			}
			continue
		}
		out = append(out, Implies(And(pre...), t))
	}
	return out
}

func sexprString(x *SExpr) string {
	if x == nil {
		return ""
	}
	switch x.Op {
	case "num":
		return x.N.String()
	case "id", "str":
		return x.S
	case "sel":
		return sexprString(x.Args[0]) + "." + x.S
	case "call":
		var as []string
		for _, a := range x.Args[1:] {
			as = append(as, sexprString(a))
		}
		return sexprString(x.Args[0]) + "(" + strings.Join(as, ", ") + ")"
	case "idx":
		return sexprString(x.Args[0]) + "[" + sexprString(x.Args[1]) + "]"
	case "bin":
		return "(" + sexprString(x.Args[0]) + " " + x.S + " " + sexprString(x.Args[1]) + ")"
	case "un":
		return x.S + sexprString(x.Args[0])
	}
	return x.Op
}

// ifaceMethodSig resolves "(pkgpath.Iface).Method" to the signature of that interface method.
func (p *Program) ifaceMethodSig(key string) *types.Signature {
	if !strings.HasPrefix(key, "(") {
		return nil
	}
	j := strings.Index(key, ").")
	if j < 0 {
		return nil
	}
	qual, meth := key[1:j], key[j+2:]
	k := strings.LastIndex(qual, ".")
	if k < 0 {
		return nil
	}
	pk := p.ByPath[qual[:k]]
	if pk == nil || pk.Types == nil {
		return nil
	}
	o := pk.Types.Scope().Lookup(qual[k+1:])
	if o == nil {
		return nil
	}
	it, ok := o.Type().Underlying().(*types.Interface)
	if !ok {
		return nil
	}
	for i := 0; i < it.NumMethods(); i++ {
		if it.Method(i).Name() == meth {
			return it.Method(i).Type().(*types.Signature)
		}
	}
	return nil
}
