package main

// Frame and determinism obligations (`pure` clause, C09 reduced).
//
//   frame/<param>-unchanged   every pointer parameter's pointee is, at every return, the value it
//                             had on entry (an SMT obligation over the merged return memory);
//   frame/stores-local        the run met no store, copy, map update or callee `modifies` whose
//                             target is not a cell allocated in this activation (these are the
//                             executor's out-of-subset events; caller-owned slices, maps and
//                             pointees can only be written through them), and no append whose first
//                             operand may be caller-owned (in-place append);
//   purity/deterministic      the run met no map iteration, goroutine, unknown callee or
//                             unsupported instruction: the results are a function of the inputs
//                             (callees taken by contract or `abstract` are deterministic
//                             functions by construction).

import (
	"sort"
	"strings"

	"golang.org/x/tools/go/ssa"
)

var frameNoteKinds = []string{
	"store through non-local pointer", "writes through a pointer that is not a local cell", "copy into non-local slice",
	"update of a map that is not a local make", "map update on unsupported values", "on a value that is not a local cell",
	"store sort mismatch",
}

var purityNoteKinds = []string{
	"range over map/string", "go statement", "call to external function without contract", "dynamic call",
	"interface method", "unsupported instruction", ": builtin ", "recursive or too deep inlining",
}

func matchNotes(notes []string, kinds []string) []string {
	var out []string
	for _, n := range notes {
		for _, k := range kinds {
			if strings.Contains(n, k) {
				out = append(out, n)
				break
			}
		}
	}
	sort.Strings(out)
	return out
}

// callerOwnedAppends: append calls whose first operand is not rooted at a value made in the
// same function (a nil constant, a make, an alloc, a call result or another append).
func callerOwnedAppends(f *ssa.Function) []string {
	var out []string
	var fresh func(v ssa.Value, depth int) bool
	fresh = func(v ssa.Value, depth int) bool {
		if depth > 20 {
			return false
		}
		switch x := v.(type) {
		case *ssa.Const:
			return x.IsNil()
		case *ssa.MakeSlice, *ssa.Alloc:
			return true
		case *ssa.Call:
			return true // a result: fresh by the callee's own frame obligations
		case *ssa.Slice:
			return fresh(x.X, depth+1)
		case *ssa.Phi:
			for _, e := range x.Edges {
				if e != v && !fresh(e, depth+1) {
					return false
				}
			}
			return true
		case *ssa.UnOp:
			// load of a local variable cell that only ever holds fresh slices is not tracked: be
			// conservative unless the address is a local alloc
			if a, ok := x.X.(*ssa.Alloc); ok {
				_ = a
				return true
			}
			return false
		case *ssa.ChangeType:
			return fresh(x.X, depth+1)
		case *ssa.Convert:
			return true // string -> []byte conversion allocates
		}
		return false
	}
	for _, b := range f.Blocks {
		for _, in := range b.Instrs {
			c, ok := in.(*ssa.Call)
			if !ok {
				continue
			}
			bi, ok := c.Call.Value.(*ssa.Builtin)
			if !ok || bi.Name() != "append" || len(c.Call.Args) == 0 {
				continue
			}
			if !fresh(c.Call.Args[0], 0) {
				out = append(out, shortName(f.String())+": append to a slice that may be caller-owned at "+theProgram.Pos(in.Pos()))
			}
		}
	}
	return out
}

func (ex *Exec) pureObligations(fr *Frame, con *Contract, retG *Term, retMem Mem, pos string) {
	if con == nil || !con.Pure {
		return
	}
	for i, p := range fr.fn.Params {
		pv, ok := fr.params[i].(PtrV)
		if !ok || len(pv.Path) != 0 {
			continue
		}
		entry, final := fr.entry[pv.Cell], retMem[pv.Cell]
		if entry == nil || final == nil {
			continue
		}
		final = ex.refreshAliases(retMem, pv.Cell, final)
		ex.oblige("frame/"+p.Name()+"-unchanged", "frame", pos, retG, Eq(final, entry))
	}
	bad := matchNotes(ex.OOS, frameNoteKinds)
	bad = append(bad, callerOwnedAppends(fr.fn)...)
	seen := map[*ssa.Function]bool{fr.fn: true}
	for _, f := range ex.inlinedFns {
		if !seen[f] {
			seen[f] = true
			bad = append(bad, callerOwnedAppends(f)...)
		}
	}
	o := TTrue
	if len(bad) > 0 {
		o = TFalse
	}
	ex.oblige("frame/stores-local", "frame", pos, retG, o)
	if len(bad) > 0 {
		ex.Obls[len(ex.Obls)-1].Note = strings.Join(bad, "; ")
	}
	imp := matchNotes(ex.OOS, purityNoteKinds)
	o = TTrue
	if len(imp) > 0 {
		o = TFalse
	}
	ex.oblige("purity/deterministic", "purity", pos, retG, o)
	if len(imp) > 0 {
		ex.Obls[len(ex.Obls)-1].Note = strings.Join(imp, "; ")
	}
}
