package main

import (
	"fmt"
	"go/token"
	"go/types"
	"math/big"
	"sort"
	"strings"

	"golang.org/x/tools/go/ssa"
)

// ---- loops ----

// loopEnv builds the environment for evaluating invariants of lp with the given
// phi valuation and memory.
func (fr *Frame) loopEnv(lp *Loop, phis map[*ssa.Phi]Val, mem Mem) *SpecEnv {
	env := fr.bodyEnv(lp.Header, mem)
	// processed-element counters of enclosing range loops: $n<k>
	for _, outer := range fr.loops {
		if outer == lp || !outer.Blocks[lp.Header] {
			continue
		}
		for _, in := range outer.Header.Instrs {
			phi, ok := in.(*ssa.Phi)
			if !ok {
				break
			}
			if phi.Comment == "rangeindex" {
				if tv, ok := fr.vals[phi].(TV); ok {
					env.vars[fmt.Sprintf("$n%d", outer.Ord)] = mathInt(Add(tv.T, IntC(1)))
				}
			}
		}
	}
	for _, in := range lp.Header.Instrs {
		phi, ok := in.(*ssa.Phi)
		if !ok {
			break
		}
		v := phis[phi]
		if phi.Comment == "rangeindex" {
			if tv, ok := v.(TV); ok {
				env.vars["$n"] = mathInt(Add(tv.T, IntC(1)))
				env.vars[fmt.Sprintf("$n%d", lp.Ord)] = mathInt(Add(tv.T, IntC(1)))
			}
			continue
		}
		if phi.Comment != "" {
			env.vars[phi.Comment] = v
		}
	}
	return env
}

// bodyEnv: names visible at block b: parameters, named cells, debug-ref'd values in dominators.
func (fr *Frame) bodyEnv(b *ssa.BasicBlock, mem Mem) *SpecEnv {
	pkg := ""
	if fr.con != nil {
		pkg = fr.con.PkgPath
	} else if fr.fn.Pkg != nil {
		pkg = pkgPathOf(fr.fn)
	}
	env := &SpecEnv{ex: fr.ex, fr: fr, pkgPath: pkg, vars: map[string]Val{}, mem: mem, old: fr.entry}
	for i, p := range fr.fn.Params {
		env.vars[p.Name()] = fr.params[i]
	}
	if fr.top {
		for k, v := range fr.ex.ghosts {
			env.vars[k] = v
		}
	}
	for i, fv := range fr.fn.FreeVars {
		if v, ok := fr.vals[fv]; ok {
			env.vars[fv.Name()] = v
		}
		_ = i
	}
	env.lookup = func(name string) (Val, bool) {
		// latest definition of the source variable that dominates b
		var best ssa.Value
		bestDepth, bestIdx := -1, -2
		consider := func(v ssa.Value, blk *ssa.BasicBlock, idx int) {
			if blk != b && !blk.Dominates(b) {
				return
			}
			if blk == b && idx >= 0 && fr.loopOf[b] != nil {
				return // values computed in the header after the phis are not "at the header"
			}
			d := domDepth(blk)
			if d > bestDepth || (d == bestDepth && idx > bestIdx) {
				if _, ok := fr.vals[v]; ok || isConst(v) {
					best, bestDepth, bestIdx = v, d, idx
				}
			}
		}
		for _, blk := range fr.fn.Blocks {
			for i, in := range blk.Instrs {
				switch x := in.(type) {
				case *ssa.Phi:
					if x.Comment == name {
						consider(x, blk, -1)
					}
				case *ssa.DebugRef:
					if !x.IsAddr && x.Object() != nil && x.Object().Name() == name {
						if _, isVar := x.Object().(*types.Var); isVar {
							consider(x.X, blk, i)
						}
					}
				}
			}
		}
		if best != nil {
			if c, ok := best.(*ssa.Const); ok {
				return constTerm(c), true
			}
			return fr.vals[best], true
		}
		// named cells: the name denotes the current value
		for a, c := range fr.cells {
			if al, ok := a.(*ssa.Alloc); ok && al.Comment == name {
				if cv, ok := mem[c]; ok && !c.Dyn {
					return TV{cv, c.Typ}, true
				}
			}
		}
		return nil, false
	}
	return env
}


func (fr *Frame) headerPhis(lp *Loop) []*ssa.Phi {
	var r []*ssa.Phi
	for _, in := range lp.Header.Instrs {
		if phi, ok := in.(*ssa.Phi); ok {
			r = append(r, phi)
		} else {
			break
		}
	}
	return r
}

func (fr *Frame) loopClauses(lp *Loop) []*Clause {
	var cls []*Clause
	if fr.con != nil {
		cls = append(cls, fr.con.Invs[lp.Ord]...)
	}
	return cls
}

func (fr *Frame) enterLoop(lp *Loop, b *ssa.BasicBlock) bool {
	ex := fr.ex
	phis := fr.headerPhis(lp)
	cur := map[*ssa.Phi]Val{}
	for _, p := range phis {
		cur[p] = fr.vals[p]
	}
	name := fmt.Sprintf("%sloop#%d", fr.prefix, lp.Ord)
	pos := ex.P.Pos(lp.Pos)
	// entry obligations
	env := fr.loopEnv(lp, cur, fr.mem)
	for _, cl := range fr.loopClauses(lp) {
		t, err := env.EvalBool(cl.Expr)
		if err != nil {
			ex.oos("%s: %s invariant %s: %v", shortName(fr.fn.String()), name, cl.Label, err)
			continue
		}
		ex.oblige(name+"/inv:"+cl.Label+"/entry", "inv-entry", pos, fr.cur, t)
	}
	// havoc
	var segHavoc []*Term
	roots, unknown := fr.modifiedRoots(lp)
	if unknown {
		ex.oos("%s: %s writes through a pointer that is not a local cell: %s", shortName(fr.fn.String()), name, fr.lastUnknown)
	}
	for _, p := range phis {
		old, ok := fr.vals[p].(TV)
		if !ok {
			// non-term phi: keep if unchanged around the loop
			continue
		}
		nm := p.Comment
		if nm == "" {
			nm = p.Name()
		}
		hv := Fresh(fmt.Sprintf("%s@loop%d", nm, lp.Ord), old.T.Sort)
		if p.Comment != "rangeindex" {
			segHavoc = append(segHavoc, hv)
		}
		fr.vals[p] = TV{Typed(hv, old.Typ), old.Typ}
	}
	for r := range roots {
		var c *Cell
		switch x := r.(type) {
		case *ssa.Alloc, *ssa.MakeSlice, *ssa.MakeMap:
			c = fr.cells[x]
		case *ssa.Parameter:
			if pv, ok := fr.vals[x].(PtrV); ok {
				c = pv.Cell
			} else if sv, ok := fr.vals[x].(SliceV); ok {
				c = sv.Cell
			}
		case *ssa.FreeVar:
			if pv, ok := fr.vals[x].(PtrV); ok {
				c = pv.Cell
			}
		default:
			if pv, ok := fr.vals[x].(PtrV); ok && len(pv.Path) == 0 {
				c = pv.Cell
			}
		}
		if c == nil {
			continue
		}
		if mv, ok := ex.mapCells[c]; ok {
			c = mv.Cell // the variable cell aliases a locally made map
		}
		if _, live := fr.mem[c]; !live {
			continue
		}
		fr.mem[c] = Fresh(fmt.Sprintf("%s@loop%d", c.Name, lp.Ord), c.sort())
		segHavoc = append(segHavoc, fr.mem[c])
		if _, isMap := c.Typ.Underlying().(*types.Map); isMap && !c.Dyn && !c.Param {
			// a map made by `make` stays non-nil
			ex.assume(fr.cur, Not(SelField(fr.mem[c].Sort.Ctors[0], 3, fr.mem[c])))
		}
	}
	hav := map[*ssa.Phi]Val{}
	for _, p := range phis {
		hav[p] = fr.vals[p]
	}
	fr.segEnter(lp, fr.cur, segHavoc)
	env2 := fr.loopEnv(lp, hav, fr.mem)
	// automatic range-loop invariant -1 <= rangeindex < len, proved like any other invariant:
	// entry (-1 < len) here, preservation in closeLoop.
	for _, p := range phis {
		if p.Comment == "rangeindex" {
			if tv, ok := hav[p].(TV); ok {
				ex.assume(fr.cur, Ge(tv.T, IntC(-1)))
				if n := fr.rangeLen(lp, p); n != nil {
					ex.oblige(name+"/inv:rangeindex/entry", "inv-entry", pos, fr.cur, Lt(IntC(-1), n))
					ex.assume(fr.cur, Lt(tv.T, n))
				}
			}
		}
	}
	for _, cl := range fr.loopClauses(lp) {
		t, err := env2.EvalBool(cl.Expr)
		if err != nil {
			continue
		}
		ex.assume(fr.cur, t)
	}
	return true
}

func (fr *Frame) closeLoop(lp *Loop, b *ssa.BasicBlock) {
	ex := fr.ex
	phis := fr.headerPhis(lp)
	g := And(fr.outG[b], fr.edgeCond(b, lp.Header))
	if g.IsFalse() {
		return
	}
	fr.segClose(lp)
	next := map[*ssa.Phi]Val{}
	for _, p := range phis {
		for k, pp := range lp.Header.Preds {
			if pp == b {
				next[p] = fr.get(p.Edges[k])
			}
		}
	}
	name := fmt.Sprintf("%sloop#%d", fr.prefix, lp.Ord)
	pos := ex.P.Pos(lp.Pos)
	env := fr.loopEnv(lp, next, fr.memOut[b])
	// values of header phis at loop-head (havoced) are the "old" of this iteration
	env.oldVars = map[string]Val{}
	for _, p := range phis {
		if p.Comment != "" {
			env.oldVars[p.Comment] = fr.vals[p]
		}
	}
	for _, cl := range fr.loopClauses(lp) {
		t, err := env.EvalBool(cl.Expr)
		if err != nil {
			ex.oos("%s: %s invariant %s (preservation): %v", shortName(fr.fn.String()), name, cl.Label, err)
			continue
		}
		ex.oblige(fmt.Sprintf("%s/inv:%s/preserved%s", name, cl.Label, fr.backEdgeTag(lp, b)), "inv-preserved", pos, g, t)
	}
	for _, p := range phis {
		if p.Comment == "rangeindex" {
			if tv, ok := next[p].(TV); ok {
				if n := fr.rangeLen(lp, p); n != nil {
					ex.oblige(fmt.Sprintf("%s/inv:rangeindex/preserved%s", name, fr.backEdgeTag(lp, b)), "inv-preserved", pos, g, And(Ge(tv.T, IntC(-1)), Lt(tv.T, n)))
				}
			}
		}
	}
	if fr.con != nil {
		if d := fr.con.Decr[lp.Ord]; d != nil {
			hav := map[*ssa.Phi]Val{}
			for _, p := range phis {
				hav[p] = fr.vals[p]
			}
			e0 := fr.loopEnv(lp, hav, fr.guardMemAtHeader(lp))
			m0, err0 := e0.EvalTerm(d.Expr)
			m1, err1 := env.EvalTerm(d.Expr)
			if err0 == nil && err1 == nil {
				ex.oblige(fmt.Sprintf("%s/decreases%s", name, fr.backEdgeTag(lp, b)), "decreases", pos, g, And(Ge(m0, IntC(0)), Lt(m1, m0)))
			} else {
				ex.oos("%s: %s decreases: %v %v", shortName(fr.fn.String()), name, err0, err1)
			}
		}
	}
}

// rangeLen returns the length term of a go/ssa range-over-slice loop: the header ends in
// `if rangeindex+1 < len`.
func (fr *Frame) rangeLen(lp *Loop, phi *ssa.Phi) *Term {
	h := lp.Header
	iff, ok := h.Instrs[len(h.Instrs)-1].(*ssa.If)
	if !ok {
		return nil
	}
	cmp, ok := iff.Cond.(*ssa.BinOp)
	if !ok || cmp.Op != token.LSS {
		return nil
	}
	inc, ok := cmp.X.(*ssa.BinOp)
	if !ok || inc.Op != token.ADD || inc.X != phi {
		return nil
	}
	if c, ok := inc.Y.(*ssa.Const); !ok || c.Int64() != 1 {
		return nil
	}
	if tv, ok := fr.get(cmp.Y).(TV); ok && tv.T.Sort == SInt {
		return tv.T
	}
	return nil
}

func (fr *Frame) guardMemAtHeader(lp *Loop) Mem {
	// memory right after the havoc is what the first block of the loop started with; it is
	// recorded implicitly in memOut of the header only after execution, so recompute from header's out.
	if m, ok := fr.memOut[lp.Header]; ok {
		return m
	}
	return fr.mem
}

// ---- top-level verification of one function against its contract ----

type FuncReport struct {
	Name     string
	Pos      string
	Obls     []*Obligation
	OOS      []string
	Inlined  []string
	Used     []string
	Trusted  []string
	Assumed  []string
	SSAHash  string
	Err      string
}

func (p *Program) VerifyFunc(key string) *FuncReport {
	con := p.Store.Funcs[key]
	fn := p.Funcs[key]
	rep := &FuncReport{Name: shortName(key)}
	if fn == nil {
		rep.Err = "function not found in SSA: " + key
		return rep
	}
	if fn.TypeParams().Len() > 0 && len(fn.TypeArgs()) == 0 {
		// generic function: the body is verified on one instance (the contract's `instance`
		// clause selects it; default: the first by name); callees specific to the instance are
		// taken by contract or inlined as usual
		var insts []string
		for k, g := range p.Funcs {
			if g.Origin() == fn && g.Blocks != nil && (con == nil || con.Instance == "" || strings.Contains(shortName(k), con.Instance)) {
				insts = append(insts, k)
			}
		}
		sort.Strings(insts)
		if len(insts) == 0 {
			var all []string
			for k, g := range p.Funcs {
				if g.Origin() == fn {
					all = append(all, shortName(k))
				}
			}
			sort.Strings(all)
			rep.Err = "generic function without a matching instance; instances: " + strings.Join(all, " ")
			return rep
		}
		fn = p.Funcs[insts[0]]
		rep.Assumed = append(rep.Assumed, "generic body verified on the instance "+shortName(insts[0])+"; other instances share the body and differ only in the element codec called")
	}
	rep.Pos = p.Pos(fn.Pos())
	rep.SSAHash = ssaHash(fn)
	if fn.Blocks == nil {
		rep.Err = "function has no body"
		return rep
	}
	runs := []splitRun{{}}
	if con != nil && len(con.Split) > 0 {
		runs = nil
		sp := con.Split[0]
		for k := sp.Lo; k <= sp.Hi; k++ {
			runs = append(runs, splitRun{sp: sp, k: k, on: true})
		}
		runs = append(runs, splitRun{sp: sp, on: true, rest: true})
	}
	used, trusted, inl := map[string]bool{}, map[string]bool{}, map[string]bool{}
	oos := map[string]bool{}
	for _, run := range runs {
		ex := &Exec{P: p, Unit: shortName(key), Con: con, Inlined: inl, Used: used, Trusted: trusted}
		ex.kernelMode = isWireKernel(fn)
		ex.flatWire = con != nil && len(con.WireLen) > 0
		ex.split = run
		if run.on {
			if run.rest {
				ex.suffix = fmt.Sprintf("[%s=other]", run.sp.Var)
			} else {
				ex.suffix = fmt.Sprintf("[%s=%d]", run.sp.Var, run.k)
			}
		}
		func() {
			defer func() {
				if r := recover(); r != nil {
					if se, ok := r.(specErr); ok {
						rep.Err = se.msg
						return
					}
					panic(r)
				}
			}()
			ex.verifyTop(fn, con)
		}()
		if con != nil && con.AssertsOnly {
			for _, o := range ex.Obls {
				if o.Kind == "assert" {
					rep.Obls = append(rep.Obls, o)
				}
			}
		} else {
			rep.Obls = append(rep.Obls, ex.Obls...)
		}
		for _, o := range ex.OOS {
			oos[o] = true
		}
		rep.Assumed = append(rep.Assumed, ex.AssumedNotes...)
	}
	for k := range oos {
		rep.OOS = append(rep.OOS, k)
	}
	sort.Strings(rep.OOS)
	for k := range used {
		rep.Used = append(rep.Used, shortName(k))
	}
	for k := range trusted {
		rep.Trusted = append(rep.Trusted, shortName(k))
	}
	for k := range inl {
		rep.Inlined = append(rep.Inlined, k)
	}
	sort.Strings(rep.Used)
	sort.Strings(rep.Trusted)
	sort.Strings(rep.Inlined)
	return rep
}

type splitRun struct {
	sp   *SplitSpec
	k    int
	on   bool
	rest bool
}

func (ex *Exec) verifyTop(fn *ssa.Function, con *Contract) {
	fr := &Frame{ex: ex, fn: fn, con: con, top: true, cells: map[ssa.Value]*Cell{}}
	mem := Mem{}
	var args []Val
	for _, p := range fn.Params {
		t := p.Type()
		switch u := t.Underlying().(type) {
		case *types.Pointer:
			c := ex.newCell(u.Elem(), p.Name())
			c.Param = true
			var init *Term
			func() {
				defer func() { recover() }()
				init = Sym(p.Name()+"@entry", SortOf(u.Elem()))
			}()
			if init == nil {
				args = append(args, OpaqueV{"parameter of unsupported type", t})
				continue
			}
			mem[c] = init
			ex.Inputs = append(ex.Inputs, init)
			fr.cells[p] = c
			args = append(args, PtrV{Cell: c, Elem: u.Elem()})
			ex.note("pointer parameter %s is non-nil and does not alias other parameters", p.Name())
		default:
			var s *Term
			func() {
				defer func() { recover() }()
				s = Typed(Sym(p.Name(), SortOf(t)), t)
			}()
			if s == nil {
				args = append(args, OpaqueV{"parameter of unsupported type", t})
				continue
			}
			ex.Inputs = append(ex.Inputs, s)
			args = append(args, TV{s, t})
		}
	}
	fr.params = args
	fr.entry = mem.clone()
	pkg := pkgPathOf(fn)
	if con != nil {
		pkg = con.PkgPath
	}
	entryEnv := &SpecEnv{ex: ex, fr: fr, pkgPath: pkg, vars: map[string]Val{}, mem: fr.entry, old: fr.entry}
	for i, p := range fn.Params {
		entryEnv.vars[p.Name()] = args[i]
	}
	fr.env = entryEnv
	ex.ghosts = map[string]Val{}
	if con != nil {
		for _, g := range con.Ghosts {
			gt, err := ex.P.resolveTypeExpr(con.PkgPath, g.Type)
			if err != nil {
				panic(specErr{fmt.Sprintf("ghost %s: %v", g.Name, err)})
			}
			if gt == nil {
				ex.ghosts[g.Name] = mathInt(Sym("ghost:"+g.Name, SInt))
			} else {
				ex.ghosts[g.Name] = TV{Typed(Sym("ghost:"+g.Name, SortOf(gt)), gt), gt}
			}
			entryEnv.vars[g.Name] = ex.ghosts[g.Name]
			if tv, ok := ex.ghosts[g.Name].(TV); ok {
				ex.Inputs = append(ex.Inputs, tv.T)
			}
		}
		for _, cl := range con.Requires {
			t, err := entryEnv.EvalBool(cl.Expr)
			if err != nil {
				panic(specErr{fmt.Sprintf("%s: %v", cl.Line, err)})
			}
			ex.assume(TTrue, t)
		}
		ex.MayPanic = con.MayPanic
		if con.PanicsIf != nil {
			t, err := entryEnv.EvalBool(con.PanicsIf.Expr)
			if err != nil {
				panic(specErr{fmt.Sprintf("%s: %v", con.PanicsIf.Line, err)})
			}
			ex.PanicOK = t
		}
	}
	nReq := len(ex.Assumes)
	// cover: preconditions satisfiable
	ex.Covers = append(ex.Covers, &Obligation{Name: ex.Unit + ex.suffix + "/cover/requires", Kind: "cover", Func: ex.Unit, Expect: "sat",
		Hyps: append([]*Term{}, ex.Assumes...), Goal: TFalse})
	ex.stack = []*ssa.Function{fn}
	fr.run(args, nil, mem, TTrue)
	if len(fr.rets) == 0 {
		ex.oos("%s: no return reached", shortName(fn.String()))
	}
	// merged return
	var gs []*Term
	var ms []Mem
	for _, r := range fr.rets {
		gs = append(gs, r.guard)
		ms = append(ms, r.mem)
	}
	retG := Or(gs...)
	if len(fr.rets) > 0 {
		cov := &Obligation{Name: ex.Unit + ex.suffix + "/cover/return", Kind: "cover", Func: ex.Unit, Expect: "sat",
			Hyps: append(append([]*Term{}, ex.Assumes...), retG), Goal: TFalse}
		if ex.splitHyp != nil {
			cov.Hyps = append(cov.Hyps, ex.splitHyp)
		}
		ex.Covers = append(ex.Covers, cov)
	}
	if con == nil || len(fr.rets) == 0 {
		ex.finish(nReq)
		return
	}
	retMem := mergeMem(gs, ms)
	n := fn.Signature.Results().Len()
	var res Val
	if n == 1 {
		var vs []Val
		for _, r := range fr.rets {
			vs = append(vs, r.vals[0])
		}
		res = mergeVals(gs, vs)
	} else {
		tup := make(TupleV, n)
		for i := 0; i < n; i++ {
			var vs []Val
			for _, r := range fr.rets {
				vs = append(vs, r.vals[i])
			}
			tup[i] = mergeVals(gs, vs)
		}
		res = tup
	}
	post := &SpecEnv{ex: ex, fr: fr, pkgPath: pkg, vars: map[string]Val{}, mem: retMem, old: fr.entry}
	for k, v := range entryEnv.vars {
		post.vars[k] = v
	}
	bindResults(post.vars, fn, res)
	for _, l := range con.Lets {
		post.vars[l.Label] = post.eval(l.Expr)
	}
	pos := ex.P.Pos(fn.Pos())
	for _, cl := range con.Ensures {
		if con.SplitReturns && len(fr.rets) > 1 {
			var parts []*Term
			for _, r := range fr.rets {
				pr := &SpecEnv{ex: ex, fr: fr, pkgPath: pkg, vars: map[string]Val{}, mem: r.mem, old: fr.entry}
				for k, v := range entryEnv.vars {
					pr.vars[k] = v
				}
				var rv Val
				if n == 1 {
					rv = r.vals[0]
				} else {
					rv = TupleV(append([]Val{}, r.vals...))
				}
				bindResults(pr.vars, fn, rv)
				for _, l := range con.Lets {
					pr.vars[l.Label] = pr.eval(l.Expr)
				}
				t, err := pr.EvalBool(cl.Expr)
				if err != nil {
					panic(specErr{fmt.Sprintf("%s: %v", cl.Line, err)})
				}
				parts = append(parts, Implies(r.guard, t))
			}
			// one obligation per return site (their conjunction in one query is needlessly
			// hard); sites where the clause holds trivially are not listed
			emitted := 0
			for k, part := range parts {
				if part.IsTrue() {
					continue
				}
				emitted++
				ex.oblige(fmt.Sprintf("ensures:%s/ret%d", cl.Label, k+1), "ensures", pos, TTrue, part)
			}
			if emitted == 0 {
				ex.oblige("ensures:"+cl.Label, "ensures", pos, TTrue, TTrue)
			}
			continue
		}
		t, err := post.EvalBool(cl.Expr)
		if err != nil {
			panic(specErr{fmt.Sprintf("%s: %v", cl.Line, err)})
		}
		ex.oblige("ensures:"+cl.Label, "ensures", pos, retG, t)
	}
	if ex.PanicOK != nil {
		ex.oblige("panics-iff/returns-only-when-not", "panics-iff", pos, retG, Not(ex.PanicOK))
	}
	ex.preimageObligations(fr, con, entryEnv, post, retG, pos)
	ex.wireLenObligations(fr, con, post, retG, pos)
	ex.pureObligations(fr, con, retG, retMem, pos)
	ex.finish(nReq)
}

func (ex *Exec) axiomsFor(o *Obligation) []*Term {
	globals := map[string]bool{}
	collect(append(append([]*Term{}, o.Hyps...), o.Goal), func(t *Term) {
		if t.Op == "sym" && strings.HasPrefix(t.Name, "global:") {
			globals[t.Name] = true
		}
	})
	if len(globals) == 0 {
		return nil
	}
	var out []*Term
	for _, ax := range ex.P.Store.Axioms {
		env := &SpecEnv{ex: ex, pkgPath: ax.PkgPath, vars: map[string]Val{}, mem: Mem{}, old: Mem{}}
		t, err := env.EvalBool(ax.Expr)
		if err != nil {
			ex.oos("axiom %s: %v", ax.Line, err)
			continue
		}
		hit := false
		collect([]*Term{t}, func(x *Term) {
			if x.Op == "sym" && globals[x.Name] {
				hit = true
			}
		})
		if hit {
			out = append(out, t)
			ex.note("axiom (initial value of a package-level variable, assumed never reassigned): %s", ax.Src)
		}
	}
	return out
}

func (ex *Exec) finish(nReq int) {
	for _, o := range append(append([]*Obligation{}, ex.Obls...), ex.Covers...) {
		o.Hyps = append(o.Hyps, ex.axiomsFor(o)...)
	}
	for _, o := range ex.Obls {
		for _, rd := range ex.Recs {
			o.Recs = append(o.Recs, rd)
		}
	}
	for _, o := range ex.Covers {
		for _, rd := range ex.Recs {
			o.Recs = append(o.Recs, rd)
		}
		o.Inputs = ex.Inputs
	}
	ex.Obls = append(ex.Obls, ex.Covers...)
}

func (ex *Exec) note(format string, a ...any) {
	s := fmt.Sprintf(format, a...)
	for _, n := range ex.AssumedNotes {
		if n == s {
			return
		}
	}
	ex.AssumedNotes = append(ex.AssumedNotes, s)
}

func ssaHash(fn *ssa.Function) string {
	var sb strings.Builder
	fn.WriteTo(&sb)
	// strip position comments so that unrelated line shifts do not change the hash
	lines := strings.Split(sb.String(), "\n")
	h := new(big.Int)
	_ = h
	var keep []string
	for _, l := range lines {
		t := strings.TrimSpace(l)
		if strings.HasPrefix(t, ";") || strings.HasPrefix(t, "# Location") {
			continue
		}
		keep = append(keep, t)
	}
	return sha256hex(strings.Join(keep, "\n"))[:16]
}

func domDepth(b *ssa.BasicBlock) int {
	d := 0
	for x := b.Idom(); x != nil; x = x.Idom() {
		d++
	}
	return d
}

func isConst(v ssa.Value) bool {
	_, ok := v.(*ssa.Const)
	return ok
}

// backEdgeTag names the back edge from b: empty when the loop has a single back edge,
// otherwise its ordinal among the loop's back edges (in block order).
func (fr *Frame) backEdgeTag(lp *Loop, b *ssa.BasicBlock) string {
	var srcs []int
	for _, p := range lp.Header.Preds {
		if fr.backEdg[[2]int{p.Index, lp.Header.Index}] {
			srcs = append(srcs, p.Index)
		}
	}
	if len(srcs) <= 1 {
		return ""
	}
	sort.Ints(srcs)
	for i, s := range srcs {
		if s == b.Index {
			return fmt.Sprintf("#%d", i+1)
		}
	}
	return ""
}

// isWireKernel: methods of types.Encoder / types.Decoder and the generic slice/pointer helpers.
// When one of these is the unit under verification its callees are taken by contract instead
// of the ghost-stream model (which is the trusted summary of exactly these functions).
func isWireKernel(f *ssa.Function) bool {
	n := f.String()
	if f.Origin() != nil {
		n = f.Origin().String()
	}
	if strings.HasPrefix(n, "(*"+typesPkg+".Decoder).") || strings.HasPrefix(n, "(*"+typesPkg+".Encoder).") {
		return true
	}
	switch strings.TrimPrefix(n, typesPkg+".") {
	case "DecodeSlice", "DecodeSliceFn", "DecodeSliceCast", "DecodePtr", "DecodePtrCast", "EncodeSlice", "EncodeSliceFn", "EncodeSliceCast", "EncodePtr", "EncodePtrCast":
		return true
	}
	return false
}

func pkgPathOf(f *ssa.Function) string {
	for f != nil {
		if f.Pkg != nil {
			return f.Pkg.Pkg.Path()
		}
		if f.Origin() != nil {
			f = f.Origin()
		} else {
			f = f.Parent()
		}
	}
	return ""
}
