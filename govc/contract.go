package main

// Contract store: parses `//@` lines from verif_contracts.go files inside the
// repository (build tag verif, comment-only) and from /verif/trusted/*.contracts.

import (
	"bufio"
	"fmt"
	"go/types"
	"os"
	"path/filepath"
	"regexp"
	"sort"
	"strconv"
	"strings"

	"golang.org/x/tools/go/packages"
)

type Clause struct {
	Kind  string // requires / ensures / panics-iff / invariant / decreases / assert
	Label string
	Expr  *SExpr
	Src   string
	Loop  int // loop ordinal for invariant / decreases
	Line  string
}

type SpecParam struct {
	Name string
	Type string
}

type SpecFunc struct {
	Name    string
	Params  []SpecParam
	Ret     string
	Body    *SExpr
	PkgPath string
	Rec     bool
	Opaque  bool // no body: uninterpreted
	Line    string
}

type Contract struct {
	Key      string // fully qualified ssa name
	PkgPath  string
	Props    []string
	Mode     string // "int" | "bv"
	Requires []*Clause
	Ensures  []*Clause
	PanicsIf *Clause // panics-iff
	MayPanic bool    // `may-panic`: panics are not obligations (documented)
	Invs     map[int][]*Clause
	Decr     map[int]*Clause
	Unroll   map[int]int
	Modifies []string
	Lets     []*Clause // let name = expr (post-state abbreviations)
	Trusted  bool
	Abstract bool // calls are modelled as an uninterpreted function of the arguments
	Inline   bool // always inline at call sites (still verified on its own if it has props)
	NoInline []string
	Split    []*SplitSpec
	Asserts  []*Clause
	File     string
	Line     int
	Covers   bool
	Replay   string
	Ghosts   []SpecParam
	Preimages []*PreClause
	HashFamily string
	Pure       bool // frame + determinism obligations (C09)
	// SplitReturns: each postcondition is stated per return site (guard ==> post[values of that
	// return]) and the obligation is their conjunction, instead of one statement about the
	// ite-merged results (same meaning; the terms then match the hypotheses syntactically)
	SplitReturns bool
	// AssertsOnly: the body is executed only for its `at <call site> assert` clauses (what is
	// handed to the callees); its safety and its postconditions are not claimed — used for
	// functions whose contract is otherwise assumed (`trusted`)
	AssertsOnly bool
	// ExitAsserts: `exit-assert @label expr` — evaluated at every return with the local
	// variables of the body in scope (what the function has written through its local pointers)
	ExitAsserts []*Clause
	WireLen    []*Clause // wire-length <= expr: byte length of what the function writes to its Encoder
	CallAsserts map[string][]*Clause // at <call site> assert <expr> ($arg0.. are the actual arguments)
	HashOf     *SExpr   // digest expression of the family member (default: result)
	Concrete   []string // callees whose `abstract` marking is ignored in this unit (their bodies are executed)
	Instance string // generic function: verify the instance whose name contains this text
}

type SplitSpec struct {
	Var  string
	Site string // call site key, e.g. call:bits.LeadingZeros64#1
	Lo   int
	Hi   int
}

type ContractStore struct {
	Funcs  map[string]*Contract
	Specs  map[string]*SpecFunc // by pkgpath + "." + name, and bare name for trusted/global
	Consts map[string]*SExpr
	Files  []string
	Lemmas []*Lemma
	Wire   []string
	Axioms []*Axiom
	WireIgnore map[string][]string // type key -> field paths exempt from the inverse check
	WireOrder  map[string][]string // type -> specified transmission order of its fields
}

type Axiom struct {
	PkgPath string
	Expr    *SExpr
	Src     string
	Line    string
}

type Lemma struct {
	Name    string
	PkgPath string
	Props   []string
	Vars    []SpecParam
	Expr    *SExpr
	Src     string
}

func NewStore() *ContractStore {
	return &ContractStore{Funcs: map[string]*Contract{}, Specs: map[string]*SpecFunc{}, Consts: map[string]*SExpr{}}
}

var (
	reSpec  = regexp.MustCompile(`^spec\s+(rec\s+)?([A-Za-z_][A-Za-z0-9_]*)\s*\(([^)]*)\)\s*([A-Za-z_\[\]\*\.0-9]+)?\s*(=\s*(.*))?$`)
	reFunc  = regexp.MustCompile(`^func\s+(\S+)(\s+.*)?$`)
	reLoop  = regexp.MustCompile(`^loop#(\d+)\s+(.*)$`)
	reLabel = regexp.MustCompile(`^@([A-Za-z0-9_\-\.]+)\s+(.*)$`)
)

var clauseKeywords = map[string]bool{
	"prop": true, "mode": true, "requires": true, "ensures": true, "panics-iff": true, "may-panic": true,
	"invariant": true, "decreases": true, "unroll": true, "modifies": true, "let": true, "trusted": true,
	"abstract": true, "inline": true, "split": true, "assert": true, "replay": true, "no-panic": true, "ghost": true, "instance": true, "preimage": true, "hash-family": true, "concrete": true, "wire-length": true, "at": true, "pure": true, "split-returns": true, "asserts-only": true, "exit-assert": true,
}

// qualify turns a contract-file function key into the ssa full name.
func qualify(pkgPath, key string) string {
	if strings.HasPrefix(key, "(*") {
		i := strings.Index(key, ")")
		return "(*" + pkgPath + "." + key[2:i] + ")" + key[i+1:]
	}
	if strings.HasPrefix(key, "(") {
		i := strings.Index(key, ")")
		return "(" + pkgPath + "." + key[1:i] + ")" + key[i+1:]
	}
	return pkgPath + "." + key
}

// loadText parses contract text. pkgPath is the default package for keys.
func (cs *ContractStore) loadText(file, pkgPath string, lines []string) error {
	var cur *Contract
	var lastClause *Clause
	var lastSpec *SpecFunc
	var pending *string // raw source being continued
	flush := func() error { return nil }
	_ = flush
	type raw struct {
		text string
		line int
	}
	// join continuation lines: a line that does not start with a keyword/func/spec/lemma/package continues the previous one
	var stmts []raw
	for i, l := range lines {
		t := strings.TrimSpace(l)
		if t == "" || strings.HasPrefix(t, "#") {
			continue
		}
		if j := strings.Index(t, " //"); j >= 0 {
			t = strings.TrimSpace(t[:j])
		}
		first := t
		if j := strings.IndexAny(t, " \t"); j >= 0 {
			first = t[:j]
		}
		isStart := clauseKeywords[first] || first == "func" || first == "spec" || first == "lemma" || first == "package" || first == "const" || first == "wire" || first == "axiom" || first == "wire-ignore" || first == "wire-order"
		if !isStart && len(stmts) > 0 {
			stmts[len(stmts)-1].text += " " + t
			continue
		}
		stmts = append(stmts, raw{t, i + 1})
	}
	_ = pending
	_ = lastClause
	_ = lastSpec
	for _, st := range stmts {
		t := st.text
		where := fmt.Sprintf("%s:%d", file, st.line)
		first, rest := t, ""
		if j := strings.IndexAny(t, " \t"); j >= 0 {
			first, rest = t[:j], strings.TrimSpace(t[j:])
		}
		switch first {
		case "package":
			pkgPath = rest
			cur = nil
		case "const":
			// const NAME = expr
			j := strings.Index(rest, "=")
			if j < 0 {
				return fmt.Errorf("%s: bad const", where)
			}
			e, err := ParseSpec(strings.TrimSpace(rest[j+1:]))
			if err != nil {
				return fmt.Errorf("%s: %v", where, err)
			}
			cs.Consts[pkgPath+"."+strings.TrimSpace(rest[:j])] = e
		case "spec":
			m := reSpec.FindStringSubmatch(t)
			if m == nil {
				return fmt.Errorf("%s: bad spec line: %s", where, t)
			}
			sf := &SpecFunc{Name: m[2], Ret: m[4], PkgPath: pkgPath, Rec: m[1] != "", Line: where}
			for _, p := range strings.Split(m[3], ",") {
				p = strings.TrimSpace(p)
				if p == "" {
					continue
				}
				parts := strings.Fields(p)
				if len(parts) != 2 {
					return fmt.Errorf("%s: bad spec param %q", where, p)
				}
				sf.Params = append(sf.Params, SpecParam{parts[0], parts[1]})
			}
			if m[6] == "" {
				sf.Opaque = true
			} else {
				e, err := ParseSpec(m[6])
				if err != nil {
					return fmt.Errorf("%s: %v", where, err)
				}
				sf.Body = e
			}
			cs.Specs[pkgPath+"."+sf.Name] = sf
			cur = nil
		case "lemma":
			// lemma name(vars) : expr
			j := strings.Index(rest, "::")
			if j < 0 {
				return fmt.Errorf("%s: bad lemma", where)
			}
			head := strings.TrimSpace(rest[:j])
			lm := &Lemma{PkgPath: pkgPath, Src: strings.TrimSpace(rest[j+2:])}
			k := strings.Index(head, "(")
			if k < 0 {
				return fmt.Errorf("%s: bad lemma head", where)
			}
			lm.Name = strings.TrimSpace(head[:k])
			inner := head[k+1 : strings.LastIndex(head, ")")]
			tail := strings.TrimSpace(head[strings.LastIndex(head, ")")+1:])
			for _, p := range strings.Split(inner, ",") {
				p = strings.TrimSpace(p)
				if p == "" {
					continue
				}
				parts := strings.Fields(p)
				if len(parts) != 2 {
					return fmt.Errorf("%s: bad lemma var %q", where, p)
				}
				lm.Vars = append(lm.Vars, SpecParam{parts[0], parts[1]})
			}
			for _, f := range strings.Fields(tail) {
				if strings.HasPrefix(f, "prop=") {
					lm.Props = strings.Split(strings.TrimPrefix(f, "prop="), ",")
				}
			}
			e, err := ParseSpec(lm.Src)
			if err != nil {
				return fmt.Errorf("%s: %v", where, err)
			}
			lm.Expr = e
			cs.Lemmas = append(cs.Lemmas, lm)
			cur = nil
		case "axiom":
			e, err := ParseSpec(rest)
			if err != nil {
				return fmt.Errorf("%s: %v", where, err)
			}
			cs.Axioms = append(cs.Axioms, &Axiom{PkgPath: pkgPath, Expr: e, Src: rest, Line: where})
			cur = nil
		case "wire-ignore":
			parts := strings.Fields(rest)
			if len(parts) < 2 {
				return fmt.Errorf("%s: wire-ignore needs type and field path", where)
			}
			if cs.WireIgnore == nil {
				cs.WireIgnore = map[string][]string{}
			}
			k := shortName(pkgPath) + "." + parts[0]
			cs.WireIgnore[k] = append(cs.WireIgnore[k], parts[1])
			cur = nil
		case "wire-order":
			// wire-order <Type> <field> <field> ...: the specified order in which the encoder
			// transmits the fields of the type
			parts := strings.Fields(rest)
			if len(parts) < 2 {
				return fmt.Errorf("%s: wire-order needs a type and its fields", where)
			}
			if cs.WireOrder == nil {
				cs.WireOrder = map[string][]string{}
			}
			cs.WireOrder[shortName(pkgPath)+"."+parts[0]] = parts[1:]
			cur = nil
		case "wire":
			cs.Wire = append(cs.Wire, pkgPath+"\x00"+rest)
			cur = nil
		case "func":
			m := reFunc.FindStringSubmatch(t)
			if m == nil {
				return fmt.Errorf("%s: bad func line", where)
			}
			key := qualify(pkgPath, m[1])
			if old, ok := cs.Funcs[key]; ok {
				cur = old
			} else {
				cur = &Contract{Key: key, PkgPath: pkgPath, Invs: map[int][]*Clause{}, Decr: map[int]*Clause{}, Unroll: map[int]int{}, File: file, Line: st.line, Mode: "int"}
				cs.Funcs[key] = cur
			}
		default:
			if !clauseKeywords[first] {
				return fmt.Errorf("%s: unknown directive %q", where, first)
			}
			if cur == nil {
				return fmt.Errorf("%s: clause outside func", where)
			}
			if err := cs.addClause(cur, first, rest, where); err != nil {
				return err
			}
		}
	}
	return nil
}

func (cs *ContractStore) addClause(c *Contract, kw, rest, where string) error {
	label := ""
	if m := reLabel.FindStringSubmatch(rest); m != nil {
		label, rest = m[1], m[2]
	}
	parse := func(src string) (*SExpr, error) {
		e, err := ParseSpec(src)
		if err != nil {
			return nil, fmt.Errorf("%s: %v", where, err)
		}
		return e, nil
	}
	switch kw {
	case "prop":
		c.Props = append(c.Props, strings.Fields(strings.ReplaceAll(rest, ",", " "))...)
	case "mode":
		c.Mode = rest
	case "trusted":
		c.Trusted = true
	case "abstract":
		c.Abstract = true
	case "inline":
		c.Inline = true
	case "instance":
		c.Instance = rest
	case "wire-length":
		r2 := strings.TrimSpace(strings.TrimPrefix(strings.TrimSpace(rest), "<="))
		e, err := ParseSpec(r2)
		if err != nil {
			return fmt.Errorf("%s: %v", where, err)
		}
		c.WireLen = append(c.WireLen, &Clause{Kind: kw, Label: label, Expr: e, Src: rest, Line: where})
	case "at":
		// at call:withDecoder#1 assert <expr>
		parts := strings.SplitN(rest, " assert ", 2)
		if len(parts) != 2 {
			return fmt.Errorf("%s: at <site> assert <expr>", where)
		}
		// optional label: at <site> assert @label <expr>
		body := strings.TrimSpace(parts[1])
		alabel := ""
		if lm := reLabel.FindStringSubmatch(body); lm != nil {
			alabel, body = lm[1], lm[2]
		}
		e, err := ParseSpec(body)
		if err != nil {
			return fmt.Errorf("%s: %v", where, err)
		}
		if alabel != "" {
			label = alabel
		}
		if c.CallAsserts == nil {
			c.CallAsserts = map[string][]*Clause{}
		}
		site := strings.TrimSpace(parts[0])
		c.CallAsserts[site] = append(c.CallAsserts[site], &Clause{Kind: "assert", Label: label, Expr: e, Src: rest, Line: where})
	case "pure":
		c.Pure = true
	case "split-returns":
		c.SplitReturns = true
	case "asserts-only":
		c.AssertsOnly = true
	case "exit-assert":
		e, err := ParseSpec(rest)
		if err != nil {
			return fmt.Errorf("%s: %v", where, err)
		}
		c.ExitAsserts = append(c.ExitAsserts, &Clause{Kind: "assert", Label: label, Expr: e, Src: rest, Line: where})
	case "concrete":
		c.Concrete = append(c.Concrete, strings.Fields(strings.ReplaceAll(rest, ",", " "))...)
	case "hash-family":
		c.HashFamily = rest
		if j := strings.Index(rest, " of "); j >= 0 {
			c.HashFamily = strings.TrimSpace(rest[:j])
			e, err := ParseSpec(strings.TrimSpace(rest[j+4:]))
			if err != nil {
				return fmt.Errorf("%s: %v", where, err)
			}
			c.HashOf = e
		}
	case "preimage":
		pc, err := parsePreimage(rest, where)
		if err != nil {
			return err
		}
		c.Preimages = append(c.Preimages, pc)
	case "ghost":
		parts := strings.Fields(rest)
		if len(parts) != 2 {
			return fmt.Errorf("%s: ghost needs name and type", where)
		}
		c.Ghosts = append(c.Ghosts, SpecParam{parts[0], parts[1]})
	case "may-panic":
		c.MayPanic = true
	case "no-panic":
	case "replay":
		c.Replay = rest
	case "modifies":
		c.Modifies = append(c.Modifies, strings.Fields(strings.ReplaceAll(rest, ",", " "))...)
	case "requires", "ensures", "assert":
		e, err := parse(rest)
		if err != nil {
			return err
		}
		cl := &Clause{Kind: kw, Label: label, Expr: e, Src: rest, Line: where}
		switch kw {
		case "requires":
			if label == "" {
				cl.Label = fmt.Sprintf("requires#%d", len(c.Requires)+1)
			}
			c.Requires = append(c.Requires, cl)
		case "ensures":
			if label == "" {
				cl.Label = fmt.Sprintf("ensures#%d", len(c.Ensures)+1)
			}
			c.Ensures = append(c.Ensures, cl)
		case "assert":
			c.Asserts = append(c.Asserts, cl)
		}
	case "panics-iff":
		e, err := parse(rest)
		if err != nil {
			return err
		}
		c.PanicsIf = &Clause{Kind: kw, Label: "panics-iff", Expr: e, Src: rest, Line: where}
	case "let":
		j := strings.Index(rest, "=")
		if j < 0 {
			return fmt.Errorf("%s: bad let", where)
		}
		e, err := parse(strings.TrimSpace(rest[j+1:]))
		if err != nil {
			return err
		}
		c.Lets = append(c.Lets, &Clause{Kind: "let", Label: strings.TrimSpace(rest[:j]), Expr: e, Src: rest, Line: where})
	case "invariant", "decreases", "unroll":
		m := reLoop.FindStringSubmatch(rest)
		if m == nil {
			return fmt.Errorf("%s: %s needs loop#k", where, kw)
		}
		k, _ := strconv.Atoi(m[1])
		body := m[2]
		if lm := reLabel.FindStringSubmatch(body); lm != nil {
			label, body = lm[1], lm[2]
		}
		if kw == "unroll" {
			n, err := strconv.Atoi(strings.TrimSpace(body))
			if err != nil {
				return fmt.Errorf("%s: unroll needs a count", where)
			}
			c.Unroll[k] = n
			return nil
		}
		e, err := parse(body)
		if err != nil {
			return err
		}
		cl := &Clause{Kind: kw, Label: label, Expr: e, Src: body, Loop: k, Line: where}
		if kw == "invariant" {
			if label == "" {
				cl.Label = fmt.Sprintf("inv#%d", len(c.Invs[k])+1)
			}
			c.Invs[k] = append(c.Invs[k], cl)
		} else {
			c.Decr[k] = cl
		}
	case "split":
		// split n := call:pkg.Func#k in lo..hi
		re := regexp.MustCompile(`^([A-Za-z_][A-Za-z0-9_]*)\s*:=\s*(\S+)\s+in\s+(\d+)\.\.(\d+)$`)
		m := re.FindStringSubmatch(rest)
		if m == nil {
			return fmt.Errorf("%s: bad split", where)
		}
		lo, _ := strconv.Atoi(m[3])
		hi, _ := strconv.Atoi(m[4])
		sp := &SplitSpec{Var: m[1], Site: m[2], Lo: lo, Hi: hi}
		c.Split = append(c.Split, sp)
	}
	return nil
}

// LoadRepoContracts reads verif_contracts.go from every loaded package of the module.
func (cs *ContractStore) LoadRepoContracts(p *Program) error {
	var paths []string
	for path := range p.ByPath {
		if strings.HasPrefix(path, modPath) {
			paths = append(paths, path)
		}
	}
	sort.Strings(paths)
	for _, path := range paths {
		pk := p.ByPath[path]
		dir := ""
		for _, f := range pk.GoFiles {
			dir = filepath.Dir(f)
			break
		}
		if dir == "" {
			continue
		}
		file := filepath.Join(dir, "verif_contracts.go")
		fh, err := os.Open(file)
		if err != nil {
			continue
		}
		var lines []string
		sc := bufio.NewScanner(fh)
		sc.Buffer(make([]byte, 1<<20), 1<<20)
		for sc.Scan() {
			l := strings.TrimSpace(sc.Text())
			if strings.HasPrefix(l, "//@") {
				lines = append(lines, strings.TrimPrefix(l, "//@"))
			} else {
				lines = append(lines, "")
			}
		}
		fh.Close()
		if err := cs.loadText(file, path, lines); err != nil {
			return err
		}
		cs.Files = append(cs.Files, file)
	}
	return nil
}

func (cs *ContractStore) LoadTrustedDir(dir string) error {
	files, _ := filepath.Glob(filepath.Join(dir, "*.contracts"))
	sort.Strings(files)
	for _, f := range files {
		b, err := os.ReadFile(f)
		if err != nil {
			return err
		}
		before := map[string]bool{}
		for k := range cs.Funcs {
			before[k] = true
		}
		if err := cs.loadText(f, "", strings.Split(string(b), "\n")); err != nil {
			return err
		}
		for k, c := range cs.Funcs {
			if !before[k] {
				c.Trusted = true
			}
		}
		cs.Files = append(cs.Files, f)
	}
	return nil
}

// resolveTypeExpr resolves a small type expression in the context of a package.
func (p *Program) resolveTypeExpr(pkgPath, expr string) (types.Type, error) {
	expr = strings.TrimSpace(expr)
	switch expr {
	case "int", "Int", "":
		return nil, nil // mathematical integer
	case "bool":
		return types.Typ[types.Bool], nil
	}
	if strings.HasPrefix(expr, "*") {
		t, err := p.resolveTypeExpr(pkgPath, expr[1:])
		if err != nil || t == nil {
			return nil, fmt.Errorf("bad pointer type %s", expr)
		}
		return types.NewPointer(t), nil
	}
	if strings.HasPrefix(expr, "[]") {
		t, err := p.resolveTypeExpr(pkgPath, expr[2:])
		if err != nil || t == nil {
			return nil, fmt.Errorf("bad slice type %s", expr)
		}
		return types.NewSlice(t), nil
	}
	if strings.HasPrefix(expr, "[") {
		j := strings.Index(expr, "]")
		n, err := strconv.Atoi(expr[1:j])
		if err != nil {
			return nil, err
		}
		t, err := p.resolveTypeExpr(pkgPath, expr[j+1:])
		if err != nil || t == nil {
			return nil, fmt.Errorf("bad array type %s", expr)
		}
		return types.NewArray(t, int64(n)), nil
	}
	if o := types.Universe.Lookup(expr); o != nil {
		if tn, ok := o.(*types.TypeName); ok {
			return tn.Type(), nil
		}
	}
	var pk *packages.Package
	name := expr
	if j := strings.Index(expr, "."); j >= 0 {
		pname := expr[:j]
		name = expr[j+1:]
		pk = p.findPkgByName(pkgPath, pname)
		if pk == nil {
			return nil, fmt.Errorf("unknown package %q in type %s", pname, expr)
		}
	} else {
		pk = p.ByPath[pkgPath]
	}
	if pk == nil {
		return nil, fmt.Errorf("no package %s", pkgPath)
	}
	o := pk.Types.Scope().Lookup(name)
	if o == nil {
		return nil, fmt.Errorf("type %s not found in %s", name, pk.PkgPath)
	}
	tn, ok := o.(*types.TypeName)
	if !ok {
		return nil, fmt.Errorf("%s is not a type", expr)
	}
	return tn.Type(), nil
}

func (p *Program) findPkgByName(from, name string) *packages.Package {
	if pk := p.ByPath[from]; pk != nil {
		for path, imp := range pk.Imports {
			if imp.Name == name || strings.HasSuffix(path, "/"+name) || path == name {
				return imp
			}
		}
	}
	var cands []string
	for path, pk := range p.ByPath {
		if pk.Name == name {
			cands = append(cands, path)
		}
	}
	sort.Strings(cands)
	for _, c := range cands {
		if strings.HasPrefix(c, modPath) {
			return p.ByPath[c]
		}
	}
	if len(cands) > 0 {
		return p.ByPath[cands[0]]
	}
	return nil
}
