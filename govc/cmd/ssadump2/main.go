package main

import (
	"fmt"
	"os"
	"strings"

	"golang.org/x/tools/go/packages"
	"golang.org/x/tools/go/ssa"
	"golang.org/x/tools/go/ssa/ssautil"
)

func main() {
	cfg := &packages.Config{Mode: packages.LoadAllSyntax, Dir: "/repo", BuildFlags: []string{"-tags=verif"}}
	pkgs, err := packages.Load(cfg, os.Args[1])
	if err != nil {
		panic(err)
	}
	prog, spkgs := ssautil.AllPackages(pkgs, ssa.GlobalDebug|ssa.InstantiateGenerics)
	prog.Build()
	for _, p := range spkgs {
		if p == nil {
			continue
		}
		for fn := range ssautil.AllFunctions(prog) {
			if fn.Pkg != p {
				continue
			}
			for _, pat := range os.Args[2:] {
				if strings.Contains(fn.String(), pat) {
					fn.WriteTo(os.Stdout)
					fmt.Println()
				}
			}
		}
	}
}
