package main

import (
	"fmt"
	"go/types"
	"math/big"
	"strings"
)

// Minimal S-expression reader for solver models and replay dumps.

type Sx struct {
	Atom string
	List []*Sx
	IsL  bool
}

func (s *Sx) String() string {
	if !s.IsL {
		return s.Atom
	}
	var parts []string
	for _, c := range s.List {
		parts = append(parts, c.String())
	}
	return "(" + strings.Join(parts, " ") + ")"
}

func parseSx(src string) ([]*Sx, error) {
	pos := 0
	var parse func() (*Sx, error)
	skip := func() {
		for pos < len(src) {
			c := src[pos]
			if c == ' ' || c == '\n' || c == '\t' || c == '\r' {
				pos++
			} else if c == ';' {
				for pos < len(src) && src[pos] != '\n' {
					pos++
				}
			} else {
				break
			}
		}
	}
	parse = func() (*Sx, error) {
		skip()
		if pos >= len(src) {
			return nil, fmt.Errorf("eof")
		}
		c := src[pos]
		if c == '(' || c == '[' {
			closer := byte(')')
			if c == '[' {
				closer = ']'
			}
			pos++
			l := &Sx{IsL: true}
			if c == '[' {
				l.List = append(l.List, &Sx{Atom: "$list"})
			}
			for {
				skip()
				if pos >= len(src) {
					return nil, fmt.Errorf("unbalanced")
				}
				if src[pos] == closer {
					pos++
					return l, nil
				}
				e, err := parse()
				if err != nil {
					return nil, err
				}
				l.List = append(l.List, e)
			}
		}
		if c == ')' || c == ']' {
			return nil, fmt.Errorf("unexpected closer at %d", pos)
		}
		if c == '|' {
			j := strings.IndexByte(src[pos+1:], '|')
			if j < 0 {
				return nil, fmt.Errorf("unterminated |")
			}
			a := src[pos+1 : pos+1+j]
			pos += j + 2
			return &Sx{Atom: a}, nil
		}
		if c == '"' {
			j := pos + 1
			for j < len(src) && src[j] != '"' {
				j++
			}
			a := src[pos : j+1]
			pos = j + 1
			return &Sx{Atom: a}, nil
		}
		j := pos
		for j < len(src) && !strings.ContainsRune(" \n\t\r()[]", rune(src[j])) {
			j++
		}
		a := src[pos:j]
		pos = j
		return &Sx{Atom: a}, nil
	}
	var out []*Sx
	for {
		skip()
		if pos >= len(src) {
			return out, nil
		}
		e, err := parse()
		if err != nil {
			return out, err
		}
		out = append(out, expandLets(e, nil))
	}
}

// expandLets substitutes (let ((x e)...) body) bindings, as printed in z3 models.
func expandLets(s *Sx, env map[string]*Sx) *Sx {
	if !s.IsL {
		if v, ok := env[s.Atom]; ok {
			return v
		}
		return s
	}
	if len(s.List) == 3 && !s.List[0].IsL && s.List[0].Atom == "let" && s.List[1].IsL {
		ne := map[string]*Sx{}
		for k, v := range env {
			ne[k] = v
		}
		for _, b := range s.List[1].List {
			if b.IsL && len(b.List) == 2 {
				ne[b.List[0].Atom] = expandLets(b.List[1], env)
			}
		}
		return expandLets(s.List[2], ne)
	}
	r := &Sx{IsL: true}
	for _, c := range s.List {
		r.List = append(r.List, expandLets(c, env))
	}
	return r
}

// sxInt evaluates an integer literal s-expression: 5, (- 5).
func sxInt(s *Sx) (*big.Int, bool) {
	if !s.IsL {
		n, ok := new(big.Int).SetString(s.Atom, 10)
		return n, ok
	}
	if len(s.List) == 2 && s.List[0].Atom == "-" {
		n, ok := sxInt(s.List[1])
		if !ok {
			return nil, false
		}
		return n.Neg(n), true
	}
	return nil, false
}

// sxArrayAt evaluates an array model value at index i (const/store chains only).
func sxArrayAt(s *Sx, i *big.Int) (*Sx, bool) {
	for {
		if !s.IsL || len(s.List) == 0 {
			return nil, false
		}
		h := s.List[0]
		if h.IsL && len(h.List) >= 2 && h.List[0].Atom == "as" && h.List[1].Atom == "const" && len(s.List) == 2 {
			return s.List[1], true
		}
		if h.Atom == "store" && len(s.List) == 4 {
			idx, ok := sxInt(s.List[2])
			if !ok {
				return nil, false
			}
			if idx.Cmp(i) == 0 {
				return s.List[3], true
			}
			s = s.List[1]
			continue
		}
		return nil, false
	}
}

// termFromModel converts a solver model value of Go type t into a constant term.
func termFromModel(s *Sx, t types.Type) (*Term, error) {
	if isErrorType(t) {
		n, ok := sxInt(s)
		if !ok {
			return nil, fmt.Errorf("bad error value %s", s)
		}
		return IntB(n), nil
	}
	switch u := t.Underlying().(type) {
	case *types.Basic:
		switch {
		case u.Info()&types.IsBoolean != 0:
			if s.Atom == "true" {
				return TTrue, nil
			}
			if s.Atom == "false" {
				return TFalse, nil
			}
		case u.Info()&types.IsInteger != 0:
			n, ok := sxInt(s)
			if ok {
				// values the formula never looks at carry no typing fact in the model: wrap them
				return wrapTo(IntB(n), t), nil
			}
		case u.Info()&types.IsString != 0:
			return sliceFromModel(s, types.Typ[types.Byte], SortOf(t))
		}
	case *types.Struct:
		c := structCtor(t)
		if u.NumFields() == 0 {
			return MkCtor(c), nil
		}
		if !s.IsL || len(s.List) != u.NumFields()+1 {
			return nil, fmt.Errorf("bad struct value %s for %s", s, t)
		}
		args := make([]*Term, u.NumFields())
		for i := range args {
			a, err := termFromModel(s.List[i+1], u.Field(i).Type())
			if err != nil {
				return nil, err
			}
			args[i] = a
		}
		return MkCtor(c, args...), nil
	case *types.Array:
		if u.Len() > 4096 {
			return nil, fmt.Errorf("array too long")
		}
		arr := ConstArray(SortOf(t), zeroOfSort(SortOf(u.Elem()), u.Elem()))
		for i := int64(0); i < u.Len(); i++ {
			e, ok := sxArrayAt(s, big.NewInt(i))
			if !ok {
				return nil, fmt.Errorf("unsupported array model %s", s)
			}
			et, err := termFromModel(e, u.Elem())
			if err != nil {
				return nil, err
			}
			arr = Store(arr, IntC(i), et)
		}
		return arr, nil
	case *types.Slice:
		return sliceFromModel(s, u.Elem(), SortOf(t))
	case *types.Map:
		ms := SortOf(t)
		if !s.IsL || len(s.List) != 5 {
			return nil, fmt.Errorf("bad map value %s", s)
		}
		c := ms.Ctors[0]
		has := ConstArray(c.Fields[0].Sort, TFalse)
		val := ConstArray(c.Fields[1].Sort, zeroOfSort(SortOf(u.Elem()), u.Elem()))
		n := 0
		// keys: the store chain of the membership array
		cur := s.List[1]
		seen := map[string]bool{}
		for cur.IsL && len(cur.List) == 4 && cur.List[0].Atom == "store" {
			ks := cur.List[2]
			if !seen[ks.String()] {
				seen[ks.String()] = true
				if cur.List[3].Atom == "true" {
					kt, err := termFromModel(ks, u.Key())
					if err != nil {
						return nil, err
					}
					vs, ok := sxArrayAtKey(s.List[2], ks)
					var vt *Term
					if ok {
						vt, err = termFromModel(vs, u.Elem())
						if err != nil {
							return nil, err
						}
					} else {
						vt = zeroOfSort(SortOf(u.Elem()), u.Elem())
					}
					has = Store(has, kt, TTrue)
					val = Store(val, kt, vt)
					n++
				}
			}
			cur = cur.List[1]
		}
		if !(cur.IsL && len(cur.List) == 2 && cur.List[0].IsL && len(cur.List[0].List) >= 2 && cur.List[0].List[1].Atom == "const" && cur.List[1].Atom == "false") {
			return nil, fmt.Errorf("map model with a non-finite key set")
		}
		return MkCtor(c, has, val, IntC(int64(n)), BoolC(s.List[4].Atom == "true" && n == 0)), nil
	case *types.Interface:
		is := SortOf(t)
		if ucs := unionCases[is]; ucs != nil {
			head := s
			if s.IsL && len(s.List) > 0 {
				head = s.List[0]
				if head.IsL && len(head.List) == 3 && head.List[0].Atom == "as" {
					head = head.List[1]
				}
			}
			for _, uc := range ucs {
				if strings.Trim(quoteSym(uc.Ctor.Name), "|") == head.Atom && s.IsL && len(s.List) == 2 {
					v, err := termFromModel(s.List[1], uc.Elem)
					if err != nil {
						return nil, err
					}
					return MkCtor(uc.Ctor, v), nil
				}
			}
			return MkCtor(is.Ctors[0]), nil
		}
		// abstract interface value: replayed as nil
		return Sym("abstract-iface:"+is.Name, is), nil
	case *types.Pointer:
		ps := SortOf(t)
		if !s.IsL {
			if strings.HasPrefix(s.Atom, "nil!") {
				return PtrNil(ps), nil
			}
			return nil, fmt.Errorf("bad pointer value %s", s)
		}
		if len(s.List) == 2 && strings.HasPrefix(s.List[0].Atom, "ref!") {
			v, err := termFromModel(s.List[1], u.Elem())
			if err != nil {
				return nil, err
			}
			return PtrRef(ps, v), nil
		}
		if len(s.List) == 3 && s.List[0].Atom == "as" && strings.HasPrefix(s.List[1].Atom, "nil!") {
			return PtrNil(ps), nil
		}
	}
	return nil, fmt.Errorf("unsupported model value %s for type %s", s, t)
}

func sliceFromModel(s *Sx, elem types.Type, ss *Sort) (*Term, error) {
	if !s.IsL || len(s.List) != 5 {
		return nil, fmt.Errorf("bad slice value %s", s)
	}
	if s.List[4].Atom == "true" {
		return zeroOfSort(ss, nil), nil
	}
	ln, ok1 := sxInt(s.List[1])
	off, ok2 := sxInt(s.List[2])
	if !ok1 || !ok2 || ln.Sign() < 0 || ln.Cmp(big.NewInt(256)) > 0 {
		return nil, fmt.Errorf("slice length not replayable: %s", s.List[1])
	}
	arr := ConstArray(ArraySort(SInt, SortOf(elem)), zeroOfSort(SortOf(elem), elem))
	for i := int64(0); i < ln.Int64(); i++ {
		e, ok := sxArrayAt(s.List[3], new(big.Int).Add(off, big.NewInt(i)))
		if !ok {
			return nil, fmt.Errorf("unsupported array model in slice")
		}
		et, err := termFromModel(e, elem)
		if err != nil {
			return nil, err
		}
		arr = Store(arr, IntC(i), et)
	}
	return MkSlice(ss, IntB(ln), IntC(0), arr), nil
}

// termFromDump converts a replay dump value (see replay.go) into a constant term.
func termFromDump(s *Sx, t types.Type) (*Term, error) {
	if isErrorType(t) {
		n, ok := sxInt(s)
		if !ok {
			return nil, fmt.Errorf("bad error dump %s", s)
		}
		return IntB(n), nil
	}
	switch u := t.Underlying().(type) {
	case *types.Basic:
		switch {
		case u.Info()&types.IsBoolean != 0:
			return BoolC(s.Atom == "true"), nil
		case u.Info()&types.IsInteger != 0:
			n, ok := sxInt(s)
			if ok {
				return IntB(n), nil
			}
		case u.Info()&types.IsString != 0:
			return listDump(s, types.Typ[types.Byte], SortOf(t))
		}
	case *types.Struct:
		c := structCtor(t)
		if u.NumFields() == 0 {
			return MkCtor(c), nil
		}
		if !s.IsL || len(s.List) != u.NumFields() {
			return nil, fmt.Errorf("bad struct dump %s for %s", s, t)
		}
		args := make([]*Term, u.NumFields())
		for i := range args {
			a, err := termFromDump(s.List[i], u.Field(i).Type())
			if err != nil {
				return nil, err
			}
			args[i] = a
		}
		return MkCtor(c, args...), nil
	case *types.Array:
		if !s.IsL || len(s.List) == 0 || s.List[0].Atom != "$list" {
			return nil, fmt.Errorf("bad array dump")
		}
		arr := ConstArray(SortOf(t), zeroOfSort(SortOf(u.Elem()), u.Elem()))
		for i, e := range s.List[1:] {
			et, err := termFromDump(e, u.Elem())
			if err != nil {
				return nil, err
			}
			arr = Store(arr, IntC(int64(i)), et)
		}
		return arr, nil
	case *types.Slice:
		return listDump(s, u.Elem(), SortOf(t))
	case *types.Pointer:
		ps := SortOf(t)
		if !s.IsL && s.Atom == "nil" {
			return PtrNil(ps), nil
		}
		if s.IsL && len(s.List) == 2 && s.List[0].Atom == "ref" {
			v, err := termFromDump(s.List[1], u.Elem())
			if err != nil {
				return nil, err
			}
			return PtrRef(ps, v), nil
		}
	}
	return nil, fmt.Errorf("unsupported dump value %s for type %s", s, t)
}

func listDump(s *Sx, elem types.Type, ss *Sort) (*Term, error) {
	if !s.IsL && s.Atom == "nil" {
		return zeroOfSort(ss, nil), nil
	}
	if !s.IsL || len(s.List) == 0 || s.List[0].Atom != "$list" {
		return nil, fmt.Errorf("bad list dump %s", s)
	}
	arr := ConstArray(ArraySort(SInt, SortOf(elem)), zeroOfSort(SortOf(elem), elem))
	for i, e := range s.List[1:] {
		et, err := termFromDump(e, elem)
		if err != nil {
			return nil, err
		}
		arr = Store(arr, IntC(int64(i)), et)
	}
	return MkSlice(ss, IntC(int64(len(s.List)-1)), IntC(0), arr), nil
}

// sxArrayAtKey evaluates an array model value at a key given as an s-expression (const/store chains).
func sxArrayAtKey(s *Sx, key *Sx) (*Sx, bool) {
	ks := key.String()
	for {
		if !s.IsL || len(s.List) == 0 {
			return nil, false
		}
		h := s.List[0]
		if h.IsL && len(h.List) >= 2 && h.List[0].Atom == "as" && h.List[1].Atom == "const" && len(s.List) == 2 {
			return s.List[1], true
		}
		if h.Atom == "store" && len(s.List) == 4 {
			if s.List[2].String() == ks {
				return s.List[3], true
			}
			s = s.List[1]
			continue
		}
		return nil, false
	}
}
