package main

import (
	"bufio"
	"encoding/json"
	"flag"
	"fmt"
	"os"
	"path/filepath"
	"sort"
	"strconv"
	"strings"
	"sync"
	"time"
)

type Finding struct {
	Kind       string // finding | fixed
	Property   string
	Obligation string
	Text       string
}

func loadFindings(path string) []Finding {
	var out []Finding
	f, err := os.Open(path)
	if err != nil {
		return nil
	}
	defer f.Close()
	sc := bufio.NewScanner(f)
	for sc.Scan() {
		l := strings.TrimSpace(sc.Text())
		if l == "" || strings.HasPrefix(l, "#") {
			continue
		}
		var fd Finding
		switch {
		case strings.HasPrefix(l, "finding:"):
			fd.Kind = "finding"
			l = strings.TrimSpace(strings.TrimPrefix(l, "finding:"))
		case strings.HasPrefix(l, "fixed:"):
			fd.Kind = "fixed"
			l = strings.TrimSpace(strings.TrimPrefix(l, "fixed:"))
		default:
			continue
		}
		for _, f := range strings.Fields(l) {
			if strings.HasPrefix(f, "property=") {
				fd.Property = strings.TrimPrefix(f, "property=")
			} else if strings.HasPrefix(f, "obligation=") {
				fd.Obligation = strings.TrimPrefix(f, "obligation=")
			}
		}
		fd.Text = l
		out = append(out, fd)
	}
	return out
}

func loadGreen(path string) map[string]bool {
	m := map[string]bool{}
	f, err := os.Open(path)
	if err != nil {
		return m
	}
	defer f.Close()
	sc := bufio.NewScanner(f)
	sc.Buffer(make([]byte, 1<<20), 1<<20)
	for sc.Scan() {
		l := strings.TrimSpace(sc.Text())
		if l != "" && !strings.HasPrefix(l, "#") {
			m[l] = true
		}
	}
	return m
}

type BoundedResult struct {
	Name       string  `json:"name"`
	Bound      string  `json:"bound"`
	Cases      int     `json:"cases"`
	Exhaustive bool    `json:"exhaustive"`
	Passed     bool    `json:"passed"`
	Detail     string  `json:"detail,omitempty"`
	WallS      float64 `json:"wall_s"`
}

type CheckResult struct {
	Prop        string
	Tier        string
	Seed        int
	Reports     []*FuncReport
	Obls        []*Obligation
	Violations  []string
	KnownObls   map[string]bool
	Known       []string
	Undecided   []*Obligation
	Bounded     []BoundedResult
	ToolTrouble []string
	Extra       map[string]any
}

func cmdCheck(args []string) {
	fs := flag.NewFlagSet("check", flag.ExitOnError)
	repo := fs.String("repo", "/repo", "repository")
	updateGreen := fs.Bool("update-green", false, "rewrite the expected-green list from this run (development only)")
	keep := fs.Bool("keep", false, "keep smt files")
	evidenceDir := fs.String("evidence", "", "evidence directory (default $VERIF_ROOT/evidence)")
	fs.Parse(args)
	if fs.NArg() < 1 {
		usage()
	}
	prop := fs.Arg(0)
	tier := "quick"
	if fs.NArg() > 1 {
		tier = fs.Arg(1)
	}
	if t := os.Getenv("VERIF_TIER"); t != "" && fs.NArg() < 2 {
		tier = t
	}
	seed := 0
	if s := os.Getenv("VERIF_SEED"); s != "" {
		seed, _ = strconv.Atoi(s)
	}
	root := verifRoot()
	if *evidenceDir == "" {
		*evidenceDir = filepath.Join(root, "evidence")
	}
	t0 := time.Now()
	p := loadAll(*repo)
	res := &CheckResult{Prop: prop, Tier: tier, Seed: seed, Extra: map[string]any{}}
	// functions under contract for this property
	var keys []string
	for k, c := range p.Store.Funcs {
		for _, pr := range c.Props {
			if pr == prop {
				keys = append(keys, k)
			}
		}
	}
	sort.Strings(keys)
	for _, k := range keys {
		rep := p.VerifyFunc(k)
		if kinds := propKinds[prop]; kinds != nil {
			// this property is decided by a subset of the obligation kinds of these functions (the
			// others belong to the properties the functions are also listed under)
			var keep []*Obligation
			for _, o := range rep.Obls {
				if kinds[o.Kind] {
					keep = append(keep, o)
				}
			}
			rep.Obls = keep
		}
		{
			// a clause label ending in ".only-C04-C10" belongs to the listed properties only (the
			// function's other properties do not count or report that obligation)
			var keep []*Obligation
			for _, o := range rep.Obls {
				if j := strings.Index(o.Name, ".only-"); j >= 0 {
					tail := o.Name[j+len(".only-"):]
					if k := strings.IndexAny(tail, "/ "); k >= 0 {
						tail = tail[:k]
					}
					mine := false
					for _, pr := range strings.Split(tail, "-") {
						if pr == prop {
							mine = true
						}
					}
					if !mine {
						continue
					}
				}
				keep = append(keep, o)
			}
			rep.Obls = keep
		}
		res.Reports = append(res.Reports, rep)
		res.Obls = append(res.Obls, rep.Obls...)
		if rep.Err != "" {
			res.ToolTrouble = append(res.ToolTrouble, rep.Name+": "+rep.Err)
		}
	}
	for _, lm := range p.Store.Lemmas {
		for _, pr := range lm.Props {
			if pr == prop {
				o, err := p.lemmaObligation(lm)
				if err != nil {
					res.ToolTrouble = append(res.ToolTrouble, "lemma "+lm.Name+": "+err.Error())
					continue
				}
				res.Obls = append(res.Obls, o)
			}
		}
	}
	runExtraEngines(p, res)
	timeout := 10000
	if tier == "thorough" {
		timeout = 120000
	}
	work := filepath.Join(root, ".work", fmt.Sprintf("%s-%d", prop, os.Getpid()))
	cfg := &SolverCfg{WorkDir: work, TimeoutMS: timeout, Seed: seed, Jobs: 12, AllAgree: tier == "thorough", Keep: *keep}
	phase := func(name string) {
		if os.Getenv("GOVC_PHASES") != "" {
			fmt.Fprintf(os.Stderr, "PHASE %s at %.1fs\n", name, time.Since(t0).Seconds())
		}
	}
	phase("symbolic execution done")
	SolveAll(res.Obls, cfg)
	phase("solving done")
	if !*keep {
		defer os.RemoveAll(work)
	}
	greenPath := filepath.Join(root, "expected", prop+".green")
	green := loadGreen(greenPath)
	// obligations that are expected to discharge but ran into a time limit under load are
	// retried with few parallel jobs and a long limit before any verdict is drawn
	var retry []*Obligation
	for _, o := range res.Obls {
		if o.Status == "unknown" && (green[o.Name] || *updateGreen) && o.Kind != "cover" {
			retry = append(retry, o)
		}
	}
	if len(retry) > 0 && len(retry) <= 40 {
		for _, o := range retry {
			o.Status, o.Solver = "", ""
		}
		cfg2 := *cfg
		cfg2.Jobs = 6
		cfg2.TimeoutMS = 40000
		cfg2.StageMS = 20000
		cfg2.Seed = cfg.Seed + 3
		SolveAll(retry, &cfg2)
		phase("retry done")
		res.Extra["retried_after_timeout"] = len(retry)
	}
	if *updateGreen {
		// only robustly discharged obligations are expected-green: not those that needed the
		// retry pass or more than half of the time limit (they could time out under load and
		// would then be reported on an unchanged tree)
		wasRetried := map[*Obligation]bool{}
		for _, o := range retry {
			wasRetried[o] = true
		}
		robust := func(o *Obligation) bool {
			// well under the limit that applied: 12 s for the weakening stages (20 s in the retry
			// pass), 10 s for the race
			lim := int64(4000)
			if strings.Contains(o.Solver, "(qf") || strings.Contains(o.Solver, "(q-atoms") || strings.Contains(o.Solver, "(nl-") {
				lim = 8000
			}
			return o.Status == "discharged" && o.TimeMS < lim && !wasRetried[o]
		}
		var names []string
		for _, o := range res.Obls {
			if robust(o) {
				names = append(names, o.Name)
			}
		}
		sort.Strings(names)
		// functions every obligation of which is discharged: afterwards any undischarged
		// obligation of such a function (also one that did not exist before) is a violation
		all, bad := map[string]bool{}, map[string]bool{}
		for _, o := range res.Obls {
			if o.Kind == "cover" {
				continue
			}
			all[o.Func] = true
			if !robust(o) {
				bad[o.Func] = true
			}
		}
		var full []string
		for fn := range all {
			if !bad[fn] {
				full = append(full, "!full "+fn)
			}
		}
		sort.Strings(full)
		os.MkdirAll(filepath.Dir(greenPath), 0o755)
		os.WriteFile(greenPath, []byte("# obligations discharged on the pinned tree (expected-green set, DESIGN §2.6)\n"+strings.Join(names, "\n")+"\n# functions proved completely\n"+strings.Join(full, "\n")+"\n"), 0o644)
		green = loadGreen(greenPath)
	}
	findings := loadFindings(filepath.Join(root, "KNOWN_FINDINGS.txt"))
	isKnown := func(name string) *Finding {
		for i := range findings {
			f := &findings[i]
			if f.Kind == "finding" && f.Property == prop && f.Obligation == name {
				return f
			}
		}
		return nil
	}
	replayDir := filepath.Join(root, "replay", prop)
	keyOf := map[string]string{}
	for _, k := range keys {
		keyOf[shortName(k)] = k
	}
	exit := 0
	// group failing obligations by function; replay until one counterexample reproduces
	type group struct {
		fn   string
		obls []*Obligation
	}
	var groups []*group
	gidx := map[string]*group{}
	for _, o := range res.Obls {
		switch o.Status {
		case "discharged":
			continue
		case "tool-disagreement":
			res.ToolTrouble = append(res.ToolTrouble, "solver disagreement on "+o.Name+": "+o.Note)
			continue
		case "tool-error":
			res.ToolTrouble = append(res.ToolTrouble, "every solver rejected the query for "+o.Name+": "+o.Note)
			continue
		}
		if o.Kind == "cover" {
			if o.Status == "failed" {
				res.ToolTrouble = append(res.ToolTrouble, "VACUOUS: "+o.Name+" (precondition/path is unsatisfiable)")
			}
			continue // unknown: inconclusive cover check (reported in evidence)
		}
		if f := isKnown(o.Name); f != nil {
			line := fmt.Sprintf("KNOWN-FINDING: %s", f.Text)
			res.Known = append(res.Known, line)
			if res.KnownObls == nil {
				res.KnownObls = map[string]bool{}
			}
			res.KnownObls[o.Name] = true
			fmt.Println(line)
			continue
		}
		g := gidx[o.Func]
		if g == nil {
			g = &group{fn: o.Func}
			gidx[o.Func] = g
			groups = append(groups, g)
		}
		g.obls = append(g.obls, o)
	}
	// functions some of whose expected-green obligations no longer exist under their name (the
	// code was restructured): an undischarged obligation of such a function is not "new and
	// undecided" but takes the place of a proved one
	have0 := map[string]bool{}
	for _, o := range res.Obls {
		have0[o.Name] = true
	}
	greenMissing := map[string]bool{}
	for gname := range green {
		if strings.HasPrefix(gname, "!") {
			continue
		}
		if !have0[gname] {
			if i := strings.Index(gname, "/"); i > 0 {
				fn := gname[:i]
				if j := strings.Index(fn, "["); j > 0 {
					fn = fn[:j]
				}
				greenMissing[fn] = true
			}
		}
	}
	type verdict struct {
		lines     []string
		undecided []*Obligation
		viol      []string
	}
	verdicts := make([]verdict, len(groups))
	var wg sync.WaitGroup
	sem := make(chan struct{}, 8)
	for gi, g := range groups {
		wg.Add(1)
		go func(gi int, g *group) {
			defer wg.Done()
			sem <- struct{}{}
			defer func() { <-sem }()
			v := &verdicts[gi]
			tries, cands := 0, 0
			reproduced := false
			var lastDetail = map[*Obligation]string{}
			for _, o := range g.obls {
				if o.Model == "" || tries >= 4 || (o.Status != "failed" && o.Pre == nil && cands >= 1) {
					continue
				}
				k, ok := keyOf[o.Func]
				if !ok {
					continue
				}
				tries++
				if o.Status != "failed" {
					cands++
				}
				rp := p.Replay(k, o, prop, replayDir)
				lastDetail[o] = rp.Detail
				if o.Note == "" || strings.HasPrefix(o.Note, "candidate") {
					o.Note = "replay: " + rp.Detail
				}
				if rp.Reproduced {
					line := fmt.Sprintf("VIOLATION property=%s replay=%s", prop, rp.File)
					v.viol = append(v.viol, line+"  # "+o.Name+": "+rp.Detail)
					v.lines = append(v.lines, line, fmt.Sprintf("  obligation %s (%s): %s", o.Name, o.Pos, rp.Detail))
					if len(g.obls) > 1 {
						v.lines = append(v.lines, fmt.Sprintf("  (%d further obligations of %s are not discharged)", len(g.obls)-1, g.fn))
					}
					reproduced = true
					break
				}
			}
			if reproduced {
				return
			}
			n := 0
			for _, o := range g.obls {
				if !green[o.Name] && !greenMissing[g.fn] && !green["!full "+g.fn] {
					v.undecided = append(v.undecided, o)
					continue
				}
				n++
				if n > 5 {
					continue
				}
				os.MkdirAll(replayDir, 0o755)
				file := filepath.Join(replayDir, sanitize(o.Name)+".txt")
				os.WriteFile(file, []byte(fmt.Sprintf("obligation: %s\nkind: %s\nposition: %s\nstatus: %s (solver: %s, %d ms)\nreplay: %s\nmodel:\n%s\n", o.Name, o.Kind, o.Pos, o.Status, o.Solver, o.TimeMS, lastDetail[o], o.Model)), 0o644)
				line := fmt.Sprintf("VIOLATION property=%s replay=%s no-failing-input-found", prop, file)
				v.viol = append(v.viol, line+"  # "+o.Name)
				v.lines = append(v.lines, line, fmt.Sprintf("  obligation %s (%s) was discharged on the pinned tree and now is %s", o.Name, o.Pos, o.Status))
			}
			if n > 5 {
				v.lines = append(v.lines, fmt.Sprintf("  (%d further expected-green obligations of %s are not discharged)", n-5, g.fn))
			}
		}(gi, g)
	}
	wg.Wait()
	phase("replays done")
	for _, v := range verdicts {
		for _, l := range v.lines {
			fmt.Println(l)
		}
		res.Violations = append(res.Violations, v.viol...)
		res.Undecided = append(res.Undecided, v.undecided...)
		if len(v.viol) > 0 {
			exit = 1
		}
	}
	// safety net for the evidence record: every generated obligation is either discharged, a
	// listed known finding, part of a reported violation, or reported as undecided
	{
		accounted := map[string]bool{}
		for _, u := range res.Undecided {
			accounted[u.Name] = true
		}
		for _, v := range res.Violations {
			if i := strings.Index(v, "# "); i >= 0 {
				accounted[strings.TrimSpace(strings.SplitN(v[i+2:], ":", 2)[0])] = true
				accounted[strings.TrimSpace(v[i+2:])] = true
			}
		}
		violFns := map[string]bool{}
		for _, v := range verdicts {
			_ = v
		}
		for gi, g := range groups {
			if len(verdicts[gi].viol) > 0 {
				violFns[g.fn] = true
			}
		}
		for _, o := range res.Obls {
			if o.Kind == "cover" || o.Status == "discharged" || res.KnownObls[o.Name] || accounted[o.Name] {
				continue
			}
			if violFns[o.Func] && (green[o.Name] || greenMissing[o.Func]) {
				continue // belongs to a function already reported as violating
			}
			res.Undecided = append(res.Undecided, o)
		}
	}
	// vacuity guard: expected-green obligations that vanished
	have := map[string]bool{}
	for _, o := range res.Obls {
		have[o.Name] = true
	}
	missing := 0
	for g := range green {
		if !have[g] {
			missing++
		}
	}
	if cf := os.Getenv("GOVC_CORPUS"); cf != "" {
		if b, err := os.ReadFile(cf); err == nil {
			var v any
			if json.Unmarshal(b, &v) == nil {
				res.Extra["must_fail_corpus"] = v
			}
		}
	}
	res.Extra["expected_green"] = len(green)
	res.Extra["expected_green_missing"] = missing
	for _, b := range res.Bounded {
		if !b.Passed {
			file := filepath.Join(replayDir, sanitize("bounded-"+b.Name)+".txt")
			os.MkdirAll(replayDir, 0o755)
			os.WriteFile(file, []byte(b.Detail), 0o644)
			line := fmt.Sprintf("VIOLATION property=%s replay=%s", prop, file)
			res.Violations = append(res.Violations, line+"  # bounded "+b.Name)
			fmt.Println(line)
			exit = 1
		}
	}
	wall := time.Since(t0).Seconds()
	writeEvidence(p, res, *evidenceDir, wall, timeout)
	nd := 0
	for _, o := range res.Obls {
		if o.Status == "discharged" {
			nd++
		}
	}
	fmt.Printf("%s %s: %d functions under contract, %d/%d obligations discharged, %d undecided, %d known findings, %d violations, %.1fs\n",
		prop, tier, len(res.Reports), nd, len(res.Obls), len(res.Undecided), len(res.Known), len(res.Violations), wall)
	for _, u := range res.Undecided {
		fmt.Printf("  undecided: %s (%s, %s) %s\n", u.Name, u.Status, u.Solver, u.Note)
	}
	if len(res.ToolTrouble) > 0 && exit == 0 {
		for _, t := range res.ToolTrouble {
			fmt.Println("TOOL-TROUBLE:", t)
		}
		exit = 2
	}
	if len(res.Obls) == 0 && len(res.Bounded) == 0 {
		fmt.Println("TOOL-TROUBLE: no obligations generated")
		exit = 2
	}
	os.Exit(exit)
}

func writeEvidence(p *Program, res *CheckResult, dir string, wall float64, timeout int) {
	os.MkdirAll(dir, 0o755)
	type fnEv struct {
		Name          string   `json:"name"`
		Pos           string   `json:"pos"`
		SSASha        string   `json:"ssa_sha256_16"`
		Obligations   int      `json:"obligations"`
		Discharged    int      `json:"discharged"`
		Inlined       []string `json:"inlined,omitempty"`
		UsesContracts []string `json:"callee_contracts_used,omitempty"`
		OutOfSubset   []string `json:"out_of_subset,omitempty"`
	}
	undecidedSet0 := map[string]bool{}
	for _, o := range res.Undecided {
		undecidedSet0[o.Name] = true
	}
	var fns []fnEv
	trusted := map[string]bool{}
	assumptions := map[string]bool{}
	for _, r := range res.Reports {
		fe := fnEv{Name: r.Name, Pos: r.Pos, SSASha: r.SSAHash, Inlined: r.Inlined, UsesContracts: r.Used, OutOfSubset: r.OOS}
		for _, o := range r.Obls {
			if o.Kind == "cover" {
				continue
			}
			if o.Status != "discharged" && (undecidedSet0[o.Name] || res.KnownObls[o.Name]) {
				continue
			}
			fe.Obligations++
			if o.Status == "discharged" {
				fe.Discharged++
			}
		}
		fns = append(fns, fe)
		for _, t := range r.Trusted {
			trusted["trusted contract: "+t] = true
		}
		for _, a := range r.Assumed {
			assumptions[r.Name+": "+a] = true
		}
	}
	undecidedSet := map[string]bool{}
	for _, o := range res.Undecided {
		undecidedSet[o.Name] = true
	}
	byBackend := map[string]map[string]any{}
	total, disch, covers, coversOK := 0, 0, 0, 0
	var samples []any
	for _, o := range res.Obls {
		if o.Kind == "cover" {
			covers++
			if o.Status == "discharged" {
				coversOK++
			}
			continue
		}
		if o.Status != "discharged" && (undecidedSet[o.Name] || res.KnownObls[o.Name]) {
			continue // attempted, undecided (or a listed known finding): reported separately, never counted as an obligation of the claim
		}
		total++
		if o.Status == "discharged" {
			disch++
			b := byBackend[o.Solver]
			if b == nil {
				b = map[string]any{"count": 0, "ms": int64(0)}
				byBackend[o.Solver] = b
			}
			b["count"] = b["count"].(int) + 1
			b["ms"] = b["ms"].(int64) + o.TimeMS
		}
	}
	step := 1
	if total > 12 {
		step = total / 12
	}
	i := 0
	for _, o := range res.Obls {
		if o.Kind == "cover" {
			continue
		}
		if i%step == 0 && len(samples) < 16 {
			samples = append(samples, map[string]any{"obligation": o.Name, "kind": o.Kind, "pos": o.Pos, "status": o.Status, "solver": o.Solver, "ms": o.TimeMS, "smt_bytes": o.SMTSize})
		}
		i++
	}
	var undec []any
	for _, o := range res.Undecided {
		undec = append(undec, map[string]any{"obligation": o.Name, "status": o.Status, "solver": o.Solver})
	}
	tb := []string{
		"go/types + go/ssa (x/tools v0.50.0) translation of the working tree; Go compiler and runtime",
		"SMT solvers z3 5.1.0 (z3-new), z3 4.8.12, cvc5 1.0.3",
		"govc term simplifier (constant folding, select/store, constructor/selector)",
	}
	for t := range trusted {
		tb = append(tb, t)
	}
	sort.Strings(tb[3:])
	var assm []string
	for a := range assumptions {
		assm = append(assm, a)
	}
	sort.Strings(assm)
	assm = append(assm, "INT mode: Go integers are SMT integers with explicit wrap-around at every operation (no silent mathematical treatment)",
		"slice lengths and offsets are below 2^40")
	level := propLevel(res.Prop)
	cov := map[string]any{
		"obligations":              total,
		"discharged":               disch,
		"checker_cmd":              fmt.Sprintf("govc check %s %s  (per obligation: z3-new, then race z3-new|z3|cvc5, timeout %d ms)", res.Prop, res.Tier, timeout),
		"trusted_base":             tb,
		"samples":                  samples,
		"functions_under_contract": fns,
		"by_backend":               byBackend,
		"cover_checks":             map[string]int{"run": covers, "satisfiable": coversOK, "inconclusive": covers - coversOK},
		"undecided":                undec,
		"bounded":                  res.Bounded,
		"known_findings":           res.Known,
		"violations":               res.Violations,
		"tool_trouble":             res.ToolTrouble,
		"evaluations":              total + boundedCases(res.Bounded),
		"distinct_nontrivial":      disch,
		"rule":                     "one evaluation per generated proof obligation (plus bounded cases); non-trivial = discharged by a solver or the simplifier, distinct by obligation name",
		"explanation":              propExplanation(res.Prop),
	}
	for k, v := range res.Extra {
		cov[k] = v
	}
	ev := map[string]any{
		"property_id": res.Prop,
		"tier":        res.Tier,
		"seed":        res.Seed,
		"level":       level,
		"coverage":    cov,
		"assumptions": assm,
		"wall_s":      wall,
		"violations":  len(res.Violations),
	}
	b, _ := json.MarshalIndent(ev, "", " ")
	os.WriteFile(filepath.Join(dir, res.Prop+".json"), b, 0o644)
}

func boundedCases(bs []BoundedResult) int {
	n := 0
	for _, b := range bs {
		n += b.Cases
	}
	return n
}

// lemmaObligation turns a lemma (closed formula over spec functions) into an obligation.
func (p *Program) lemmaObligation(lm *Lemma) (*Obligation, error) {
	ex := &Exec{P: p, Unit: "lemma:" + lm.Name, Inlined: map[string]bool{}, Used: map[string]bool{}, Trusted: map[string]bool{}}
	env := &SpecEnv{ex: ex, pkgPath: lm.PkgPath, vars: map[string]Val{}, mem: Mem{}, old: Mem{}}
	var inputs []*Term
	for _, v := range lm.Vars {
		t, err := p.resolveTypeExpr(lm.PkgPath, v.Type)
		if err != nil {
			return nil, err
		}
		if t == nil {
			s := Sym(v.Name, SInt)
			env.vars[v.Name] = mathInt(s)
			inputs = append(inputs, s)
		} else {
			s := Typed(Sym(v.Name, SortOf(t)), t)
			env.vars[v.Name] = TV{s, t}
			inputs = append(inputs, s)
		}
	}
	g, err := env.EvalBool(lm.Expr)
	if err != nil {
		return nil, err
	}
	o := &Obligation{Name: "lemma:" + shortName(lm.PkgPath) + "." + lm.Name, Kind: "lemma", Func: "lemma:" + lm.Name, Goal: g, Expect: "unsat", Inputs: inputs}
	for _, rd := range ex.Recs {
		o.Recs = append(o.Recs, rd)
	}
	return o, nil
}
