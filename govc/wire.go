package main

// Wire engine (DESIGN §2.7a): types.Encoder / types.Decoder are modelled by a ghost item
// stream.  The real EncodeTo / DecodeFrom bodies are executed symbolically; the kernel
// methods (Write, WriteUint64, ReadUint64, ...) and the generic helpers (EncodeSlice,
// DecodeSlice, EncodePtr, ...) act on the ghost stream, and a nested X.EncodeTo(e) /
// X.DecodeFrom(d) of another codec type is one opaque item obj<X>(value) (modular: that
// type has its own round-trip obligations).
//
// Stream (front-cons):  nil | u8(v,rest) | u64(v,rest) | raw(len,off,data,rest)
//                     | obj<T>(val,rest) | slice<T>(val,rest) | ptr<T>(val,rest)
// Encoder state: a Stream term with the hole constant $TAIL at its end; appending item i is
// substituting $TAIL := cons(i, $TAIL).
// Decoder state: DecState{in Stream, err Bool, rem Int}.

import (
	"fmt"
	"go/types"
	"math/big"
	"os"
	"strings"

	"golang.org/x/tools/go/ssa"
)

const typesPkg = modPath + "/types"

var (
	streamS    *Sort
	stNil      *Ctor
	stU8       *Ctor
	stU64      *Ctor
	stRaw      *Ctor
	stObjCtors = map[string]*Ctor{}
	stTail     *Term
	decS       *Sort
	decC       *Ctor
)

func initStream() {
	if streamS != nil {
		return
	}
	streamS = &Sort{Kind: KDT, Name: "Stream"}
	stNil = &Ctor{Name: "st.nil", Sort: streamS}
	stU8 = &Ctor{Name: "st.u8", Sort: streamS, Fields: []CField{{"st.u8.v", SInt}, {"st.u8.rest", streamS}}}
	stU64 = &Ctor{Name: "st.u64", Sort: streamS, Fields: []CField{{"st.u64.v", SInt}, {"st.u64.rest", streamS}}}
	stRaw = &Ctor{Name: "st.raw", Sort: streamS, Fields: []CField{{"st.raw.len", SInt}, {"st.raw.off", SInt}, {"st.raw.data", ArraySort(SInt, SInt)}, {"st.raw.rest", streamS}}}
	streamS.Ctors = []*Ctor{stNil, stU8, stU64, stRaw}
	stTail = Sym("$TAIL", streamS)
	decS = &Sort{Kind: KDT, Name: "DecState"}
	decC = &Ctor{Name: "mk:DecState", Sort: decS, Fields: []CField{{"DecState.in", streamS}, {"DecState.err", SBool}, {"DecState.rem", SInt}}}
	decS.Ctors = []*Ctor{decC}
}

// stObj returns the constructor for a nested item of the given kind ("obj","slice","ptr") and sort.
func stObj(kind string, key string, valSort *Sort) *Ctor {
	initStream()
	name := "st." + kind + ":" + key
	if c, ok := stObjCtors[name]; ok {
		return c
	}
	c := &Ctor{Name: name, Sort: streamS, Fields: []CField{{name + ".v", valSort}, {name + ".rest", streamS}}}
	stObjCtors[name] = c
	streamS.Ctors = append(streamS.Ctors, c)
	return c
}

func isNamedPtr(t types.Type, pkg, name string) bool {
	p, ok := t.Underlying().(*types.Pointer)
	if !ok {
		return false
	}
	nt, ok := p.Elem().(*types.Named)
	return ok && nt.Obj().Pkg() != nil && nt.Obj().Pkg().Path() == pkg && nt.Obj().Name() == name
}

func isEncoderPtr(t types.Type) bool { return isNamedPtr(t, typesPkg, "Encoder") }
func isDecoderPtr(t types.Type) bool { return isNamedPtr(t, typesPkg, "Decoder") }

// ghost cell of an Encoder / Decoder cell
func (ex *Exec) ghostOf(c *Cell, sort *Sort) *Cell {
	if ex.ghostCells == nil {
		ex.ghostCells = map[*Cell]*Cell{}
	}
	if g, ok := ex.ghostCells[c]; ok {
		return g
	}
	ex.cellCtr++
	g := &Cell{ID: ex.cellCtr, Name: c.Name + "$ghost", Ghost: sort}
	ex.ghostCells[c] = g
	return g
}

// guarded emission log of an Encoder cell: the stream is the concatenation of the items whose
// guard holds, in program order (instructions are executed in a topological order of the
// acyclic control-flow graph, so the log order is the order along every path).
type emission struct {
	guard *Term
	mk    func(rest *Term) *Term
	reset bool // Hasher.Reset: everything emitted before is discarded when the guard holds
}

func (fr *Frame) emit(v Val, mk func(rest *Term) *Term) bool {
	return fr.emitE(v, emission{guard: fr.cur, mk: mk})
}

func (fr *Frame) emitE(v Val, e emission) bool {
	initStream()
	p, ok := v.(PtrV)
	if !ok || len(p.Path) != 0 {
		return false
	}
	if fr.ex.encCells == nil {
		fr.ex.encCells = map[*Cell]bool{}
	}
	fr.ex.encCells[p.Cell] = true
	if ctx := fr.curSeg(); ctx != nil {
		if e.reset {
			ctx.bad = "Hasher.Reset inside a summarised loop"
		}
		ctx.logs[p.Cell] = append(ctx.logs[p.Cell], e)
		return true
	}
	if fr.ex.encLog == nil {
		fr.ex.encLog = map[*Cell][]emission{}
	}
	fr.ex.encLog[p.Cell] = append(fr.ex.encLog[p.Cell], e)
	return true
}

// foldLog folds an emission log into a Stream term ending in tail.  A reset discards the
// items logged before it (on the paths where its guard holds).
func foldLog(log []emission, tail *Term) *Term {
	s := tail
	kill := TFalse
	for i := len(log) - 1; i >= 0; i-- {
		g := dropExitConds(log[i].guard)
		if log[i].reset {
			kill = Or(kill, g)
			continue
		}
		s = Ite(And(g, Not(kill)), log[i].mk(s), s)
	}
	return s
}

// exitedIdx: havoced range indices of summarised loops.  After such a loop (a range loop
// without break) its exit condition holds by construction, so conjuncts of later guards that
// mention the index are dropped: they are facts, not branch conditions.
var exitedIdx = map[*Term]bool{}

func dropExitConds(g *Term) *Term {
	if len(exitedIdx) == 0 || g.IsTrue() {
		return g
	}
	var keep []*Term
	changed := false
	for _, c := range conjuncts(g) {
		hit := false
		collect([]*Term{c}, func(t *Term) {
			if exitedIdx[t] {
				hit = true
			}
		})
		if hit {
			changed = true
			continue
		}
		keep = append(keep, c)
	}
	if !changed {
		return g
	}
	return And(keep...)
}

// streamOf folds the emission log of an encoder cell into a Stream term ending in tail.
func (ex *Exec) streamOf(c *Cell, tail *Term) *Term { return foldLog(ex.encLog[c], tail) }

// ---- loops in encoders: segment items ----
//
// A loop whose body writes to an Encoder is summarised as one item
//     seg<site>(n, lam j. B(j), rest)
// where B(j) is the (nil-terminated) stream the body emits in iteration j.  The body is executed
// once from the havoced loop head; the summary is only made when B depends on no havoced state
// other than the range index (otherwise the stream becomes an unknown item and nothing about it
// can be proved).

type segCtx struct {
	lp     *Loop
	fr     *Frame
	parent *segCtx
	guard  *Term
	ri     *Term // havoced range index (value before the increment)
	n      *Term
	havoc  []*Term
	logs   map[*Cell][]emission
	mark   map[*Cell]int
	bad    string
	backs  int
}

// the segment index only ever stands for 0 <= j < n <= maxLen (every use of a segment body is
// guarded by that range), so it carries the range for the simplifier
var lamVar = WithRange(Sym("$seg!j", SInt), big.NewInt(0), new(big.Int).Lsh(big.NewInt(1), 40))

var stSegCtors = map[string]*Ctor{}

func stSeg(site string) *Ctor {
	initStream()
	name := "st.seg:" + site
	if c, ok := stSegCtors[name]; ok {
		return c
	}
	c := &Ctor{Name: name, Sort: streamS, Fields: []CField{{name + ".n", SInt}, {name + ".body", ArraySort(SInt, streamS)}, {name + ".rest", streamS}}}
	stSegCtors[name] = c
	streamS.Ctors = append(streamS.Ctors, c)
	return c
}

func isSegCtor(c *Ctor) bool { return strings.HasPrefix(c.Name, "st.seg:") }

// curSeg: the innermost summarised loop the current block of this frame (or of a caller) is in.
func (fr *Frame) curSeg() *segCtx {
	var best *segCtx
	for lp, ctx := range fr.segs {
		if fr.curBlock != nil && lp.Blocks[fr.curBlock] && fr.curBlock != lp.Header {
			if best == nil || len(lp.Blocks) < len(best.lp.Blocks) {
				best = ctx
			}
		}
	}
	if best != nil {
		return best
	}
	return fr.inheritSeg
}

func (fr *Frame) logOf(ctx *segCtx, c *Cell) []emission {
	if ctx != nil {
		return ctx.logs[c]
	}
	return fr.ex.encLog[c]
}

// segEnter is called when a loop head is entered (after the havoc).
func (fr *Frame) segEnter(lp *Loop, guard *Term, havoc []*Term) {
	if !fr.ex.wireActive() {
		return
	}
	var outer *segCtx
	// the context outside this loop
	save := fr.curBlock
	fr.curBlock = nil
	outer = fr.inheritSeg
	for l2, ctx := range fr.segs {
		if l2 != lp && l2.Blocks[lp.Header] && lp.Header != l2.Header {
			if outer == nil || outer == fr.inheritSeg || len(l2.Blocks) < len(outer.lp.Blocks) {
				outer = ctx
			}
		}
	}
	fr.curBlock = save
	ctx := &segCtx{lp: lp, fr: fr, parent: outer, guard: guard, havoc: havoc, logs: map[*Cell][]emission{}, mark: map[*Cell]int{}}
	for _, p := range fr.headerPhis(lp) {
		if p.Comment == "rangeindex" {
			if tv, ok := fr.vals[p].(TV); ok {
				ctx.ri = tv.T
				ctx.n = fr.rangeLen(lp, p)
			}
		}
	}
	for c := range fr.ex.encCells {
		ctx.mark[c] = len(fr.logOf(outer, c))
	}
	if fr.segs == nil {
		fr.segs = map[*Loop]*segCtx{}
	}
	fr.segs[lp] = ctx
}

// segClose is called at a back edge: the body's emissions become one segment item.
func (fr *Frame) segClose(lp *Loop) {
	ctx := fr.segs[lp]
	if ctx == nil {
		return
	}
	ctx.backs++
	if len(ctx.logs) == 0 {
		return
	}

	ex := fr.ex
	site := fmt.Sprintf("%s#loop%d", shortName(fr.fn.String()), lp.Ord)
	for c, log := range ctx.logs {
		why := ctx.bad
		var item func(rest *Term) *Term
		if why == "" && ctx.backs > 1 {
			why = "several back edges"
		}
		if why == "" && (ctx.ri == nil || ctx.n == nil) {
			why = "not a range loop over a slice"
		}
		if why == "" {
			// guards relative to the body's entry (which holds for every index 0 <= j < n)
			var entryG *Term
			for _, sb := range lp.Header.Succs {
				if lp.Blocks[sb] && sb != lp.Header {
					entryG = fr.guard[sb]
				}
			}
			rel := make([]emission, len(log))
			copy(rel, log)
			if entryG != nil {
				drop := map[*Term]bool{}
				for _, c := range conjuncts(entryG) {
					drop[c] = true
				}
				for i := range rel {
					var keep []*Term
					for _, c := range conjuncts(rel[i].guard) {
						if !drop[c] {
							keep = append(keep, c)
						}
					}
					rel[i].guard = And(keep...)
				}
			}
			body := foldLog(rel, MkCtor(stNil))
			body = Subst(body, map[*Term]*Term{ctx.ri: Sub(lamVar, IntC(1))})
			// the body must be a function of the index alone
			hav := map[*Term]bool{}
			for _, h := range ctx.havoc {
				hav[h] = true
			}
			collect([]*Term{body}, func(t *Term) {
				if hav[t] && why == "" {
					why = "the body's output depends on loop-carried state (" + t.Name + ")"
				}
			})
			if why == "" {
				cst := stSeg(site)
				n := ctx.n
				lam := Lam(lamVar, body)
				if os.Getenv("GOVC_WIREDEBUG") != "" {
					str := body.String()
					if len(str) > 1500 {
						str = str[:1500]
					}
					fmt.Fprintf(os.Stderr, "SEG %s body: %s\n", site, str)
				}
				item = func(rest *Term) *Term { return MkCtor(cst, n, lam, rest) }
			}
		}
		if why != "" {
			ex.oos("%s: encoder loop#%d not summarised: %s", shortName(fr.fn.String()), lp.Ord, why)
			item = func(rest *Term) *Term { return Fresh("unknown-stream", streamS) }
		}
		e := emission{guard: ctx.guard, mk: item}
		at := ctx.mark[c]
		if ctx.parent != nil {
			l := ctx.parent.logs[c]
			if at > len(l) {
				at = len(l)
			}
			ctx.parent.logs[c] = append(append(append([]emission{}, l[:at]...), e), l[at:]...)
		} else {
			l := ex.encLog[c]
			if at > len(l) {
				at = len(l)
			}
			if ex.encLog == nil {
				ex.encLog = map[*Cell][]emission{}
			}
			ex.encLog[c] = append(append(append([]emission{}, l[:at]...), e), l[at:]...)
		}
	}
	ctx.logs = map[*Cell][]emission{}
	if os.Getenv("GOVC_WIREDEBUG") != "" {
		fmt.Fprintf(os.Stderr, "SEGCLOSE %s ri=%v\n", site, ctx.ri)
	}
	if ctx.ri != nil {
		exitedIdx[ctx.ri] = true
	}
}

func (ex *Exec) wireActive() bool { return !ex.kernelMode }

func (fr *Frame) decState(v Val) (*Cell, *Term, bool) {
	initStream()
	p, ok := v.(PtrV)
	if !ok || len(p.Path) != 0 {
		return nil, nil, false
	}
	g := fr.ex.ghostOf(p.Cell, decS)
	cur := fr.mem[g]
	if cur == nil {
		cur = Fresh("dec", decS)
		fr.mem[g] = cur
	}
	return g, cur, true
}

func decIn(d *Term) *Term  { return SelField(decC, 0, d) }
func decErr(d *Term) *Term { return SelField(decC, 1, d) }
func decRem(d *Term) *Term { return SelField(decC, 2, d) }

// readItem: the decoder expects an item of constructor c with byte size sz.  Returns the
// item's field values (valid when ok) and updates the decoder state: on a mismatch, a
// previous error or insufficient remaining budget the sticky error is set.
func (fr *Frame) readItem(g *Cell, d *Term, c *Ctor, sz *Term) (fields []*Term, ok *Term) {
	in := decIn(d)
	good := And(Not(decErr(d)), IsCtor(c, in), Le(sz, decRem(d)))
	for i := range c.Fields[:len(c.Fields)-1] {
		fields = append(fields, SelField(c, i, in))
	}
	rest := SelField(c, len(c.Fields)-1, in)
	// the stream position after an error is irrelevant (every later read fails): advancing on a
	// matching item regardless of the error flag keeps the position term small
	isItem := IsCtor(c, in)
	fr.mem[g] = MkCtor(decC, Ite(isItem, rest, in), Not(good), Ite(isItem, Sub(decRem(d), sz), decRem(d)))
	if os.Getenv("GOVC_WIREDEBUG") != "" {
		cnt := func(t *Term) int { n := 0; collect([]*Term{t}, func(*Term) { n++ }); return n }
		fmt.Fprintf(os.Stderr, "READ %s: in=%d good=%d newstate=%d cur=%d\n", c.Name, cnt(in), cnt(good), cnt(fr.mem[g]), cnt(fr.cur))
	}
	return fields, good
}

func codecKey(t types.Type) string { return typeKey(t) }

// wireItemType: the type whose codec a nested EncodeTo/DecodeFrom call belongs to.
func recvElem(f *ssa.Function) types.Type {
	if f.Signature.Recv() == nil {
		return nil
	}
	t := f.Signature.Recv().Type()
	if p, ok := t.(*types.Pointer); ok {
		return p.Elem()
	}
	return t
}

// isLeafCodec: array / basic receivers (Hash256, Address, ...) are inlined rather than boxed.
func isLeafCodec(t types.Type) bool {
	switch t.Underlying().(type) {
	case *types.Array, *types.Basic:
		return true
	}
	return false
}

func (fr *Frame) valueOfRecv(v Val, elem types.Type) (*Term, bool) {
	switch x := v.(type) {
	case TV:
		if p, isP := x.Typ.Underlying().(*types.Pointer); isP && x.T.Sort.Kind == KDT && len(x.T.Sort.Ctors) == 2 {
			return convertRepr(PtrVal(x.T), p.Elem(), elem), true
		}
		return convertRepr(x.T, x.Typ, elem), true
	case PtrV:
		t := fr.load(x)
		if t == nil {
			return nil, false
		}
		return convertRepr(t, x.Elem, elem), true
	case ValPtr:
		return convertRepr(x.Root, x.Elem, elem), true
	}
	return nil, false
}

// wireNative intercepts calls that act on the ghost streams.
func (fr *Frame) wireNative(f *ssa.Function, args []Val, in ssa.Instruction) (Val, bool) {
	if len(args) == 0 {
		return nil, false
	}
	name := f.String()
	origin := f
	if f.Origin() != nil {
		origin = f.Origin()
	}
	oname := origin.String()
	u64 := types.Typ[types.Uint64]
	// ---- Encoder kernel ----
	if strings.HasPrefix(name, "(*"+typesPkg+".Encoder).") {
		e := args[0]
		switch f.Name() {
		case "WriteUint64":
			if t, ok := fr.term(args[1]); ok && fr.emit(e, func(r *Term) *Term { return MkCtor(stU64, t, r) }) {
				return TupleV{}, true
			}
		case "WriteUint8":
			if t, ok := fr.term(args[1]); ok && fr.emit(e, func(r *Term) *Term { return MkCtor(stU8, t, r) }) {
				return TupleV{}, true
			}
		case "WriteBool":
			if t, ok := fr.term(args[1]); ok && fr.emit(e, func(r *Term) *Term { return MkCtor(stU8, Ite(t, IntC(1), IntC(0)), r) }) {
				return TupleV{}, true
			}
		case "WriteTime":
			if t, ok := fr.term(args[1]); ok {
				if tt := fr.ex.namedType("time", "Time"); tt != nil {
					t = retype(t, tt)
				}
				var ux *Term
				func() {
					defer func() { recover() }()
					ux = fr.ex.abstractApp("(time.Time).Unix", []*Term{t}).(TV).T
				}()
				if ux == nil {
					fr.ex.oos("%s: WriteTime of a value that is not a time.Time term at %s", shortName(fr.fn.String()), fr.pos(in))
					fr.emit(e, func(r *Term) *Term { return Fresh("unknown-stream", streamS) })
					return TupleV{}, true
				}
				if fr.emit(e, func(r *Term) *Term { return MkCtor(stU64, wrapTo(ux, u64), r) }) {
					return TupleV{}, true
				}
			}
		case "Write":
			if t, ok := fr.term(args[1]); ok && isSliceSort(t.Sort) && fr.emit(e, func(r *Term) *Term {
				return MkCtor(stRaw, SliceLen(t), SliceOff(t), SliceArr(t), r)
			}) {
				return TupleV{TV{SliceLen(t), types.Typ[types.Int]}, TV{IntC(0), types.Universe.Lookup("error").Type()}}, true
			}
		case "WriteBytes", "WriteString":
			if t, ok := fr.term(args[1]); ok && isSliceSort(t.Sort) && fr.emit(e, func(r *Term) *Term {
				return MkCtor(stU64, SliceLen(t), MkCtor(stRaw, SliceLen(t), SliceOff(t), SliceArr(t), r))
			}) {
				return TupleV{}, true
			}
		case "Flush":
			return TV{IntC(0), types.Universe.Lookup("error").Type()}, true
		}
		fr.ex.oos("%s: unsupported Encoder operation %s at %s", shortName(fr.fn.String()), f.Name(), fr.pos(in))
		return fr.freshResults(f.Signature.Results(), "enc"), true
	}
	// ---- Decoder kernel ----
	if strings.HasPrefix(name, "(*"+typesPkg+".Decoder).") {
		g, d, ok := fr.decState(args[0])
		if !ok {
			fr.ex.oos("%s: Decoder that is not a local cell at %s", shortName(fr.fn.String()), fr.pos(in))
			return fr.freshResults(f.Signature.Results(), "dec"), true
		}
		errT := types.Universe.Lookup("error").Type()
		switch f.Name() {
		case "ReadUint64":
			fs, good := fr.readItem(g, d, stU64, IntC(8))
			return TV{Typed(Ite(good, fs[0], IntC(0)), u64), u64}, true
		case "ReadUint8":
			fs, good := fr.readItem(g, d, stU8, IntC(1))
			return TV{Typed(Ite(good, fs[0], IntC(0)), types.Typ[types.Uint8]), types.Typ[types.Uint8]}, true
		case "ReadBool":
			fs, good := fr.readItem(g, d, stU8, IntC(1))
			v := Ite(good, fs[0], IntC(0))
			// values other than 0/1 set the error
			cur := fr.mem[g]
			bad := And(good, Gt(v, IntC(1)))
			fr.mem[g] = MkCtor(decC, decIn(cur), Or(decErr(cur), bad), decRem(cur))
			return TV{Eq(v, IntC(1)), types.Typ[types.Bool]}, true
		case "ReadTime":
			fs, good := fr.readItem(g, d, stU64, IntC(8))
			tt := f.Signature.Results().At(0).Type()
			r := Fresh("time", SortOf(tt))
			ux := fr.ex.abstractApp("(time.Time).Unix", []*Term{r}).(TV).T
			// time.Unix(sec,0).Unix() == sec (T8)
			i64 := types.Typ[types.Int64]
			fr.ex.assume(fr.cur, Eq(ux, wrapTo(Ite(good, fs[0], IntC(0)), i64)))
			return TV{r, tt}, true
		case "Err":
			return TV{Ite(decErr(d), IntC(1), IntC(0)), errT}, true
		case "SetErr":
			if t, ok := fr.term(args[1]); ok {
				fr.mem[g] = MkCtor(decC, decIn(d), Or(decErr(d), Ne(t, IntC(0))), decRem(d))
				return TupleV{}, true
			}
		case "ReadBytes", "ReadString":
			fs, good := fr.readItem(g, d, stU64, IntC(8))
			d1 := fr.mem[g]
			n := Typed(Ite(good, fs[0], IntC(0)), u64)
			// length prefix larger than the remaining budget: error before allocating
			tooBig := Gt(n, decRem(d1))
			d2 := MkCtor(decC, decIn(d1), Or(decErr(d1), tooBig), decRem(d1))
			fr.mem[g] = d2
			rf, good2 := fr.readItem(g, d2, stRaw, n)
			good2 = And(good2, Eq(rf[0], n))
			cur := fr.mem[g]
			// a raw item of the wrong length is an error too
			fr.mem[g] = MkCtor(decC, Ite(good2, decIn(cur), decIn(d2)), Or(decErr(cur), Not(good2)), Ite(good2, decRem(cur), decRem(d2)))
			rt := f.Signature.Results().At(0).Type()
			ss := SortOf(rt)
			okAll := And(Not(decErr(d)), good, Not(tooBig), good2)
			res := Ite(okAll, MkSlice(ss, n, rf[1], rf[2]), zeroOfSort(ss, nil))
			return TV{res, rt}, true
		case "Read":
			// destination must be a local buffer of constant length
			sv, ok := args[1].(SliceV)
			if ok {
				ln := Sub(sv.Hi, sv.Lo)
				if ln.Op == "int" && ln.Int.IsInt64() && ln.Int.Int64() <= 128 {
					n := ln.Int.Int64()
					fs, good := fr.readItem(g, d, stRaw, ln)
					good = And(good, Eq(fs[0], ln))
					cur := fr.mem[g]
					fr.mem[g] = MkCtor(decC, Ite(good, decIn(cur), decIn(d)), Or(decErr(d), Not(good)), Ite(good, decRem(cur), decRem(d)))
					for i := int64(0); i < n; i++ {
						path := append(append([]PathEl{}, sv.Path...), PathEl{IsIdx: true, Idx: Add(sv.Lo, IntC(i))})
						p := PtrV{Cell: sv.Cell, Path: path, Elem: sv.Elem}
						old := fr.load(p)
						nv := Typed(Select(fs[2], Add(fs[1], IntC(i))), sv.Elem)
						fr.store(p, Ite(good, nv, old))
					}
					return TupleV{TV{Ite(good, ln, IntC(0)), types.Typ[types.Int]}, TV{Ite(good, IntC(0), IntC(1)), errT}}, true
				}
			}
		}
		fr.ex.oos("%s: unsupported Decoder operation %s at %s", shortName(fr.fn.String()), f.Name(), fr.pos(in))
		return fr.freshResults(f.Signature.Results(), "dec"), true
	}
	// ---- flat mode (byte lengths, C19): helpers and nested codecs are executed, not boxed ----
	if fr.ex.flatWire {
		switch oname {
		case typesPkg + ".EncodeSlice", typesPkg + ".EncodeSliceCast":
			if fr.flatSlice(f, args, in, oname) {
				return TupleV{}, true
			}
		}
		return nil, false
	}
	// ---- generic helpers ----
	switch oname {
	case typesPkg + ".EncodeSlice", typesPkg + ".EncodeSliceCast", typesPkg + ".EncodeSliceFn":
		if t, ok := fr.term(args[1]); ok && isSliceSort(t.Sort) {
			key := sliceItemKey(f, oname)
			c := stObj("slice", key, t.Sort)
			if vt := valType(args[1]); vt != nil {
				stObjTypes[c.Name] = vt
			}
			if fr.emit(args[0], func(r *Term) *Term { return MkCtor(c, t, r) }) {
				fr.ex.note("slice codec pair %s is inverse given the element codec (meta-lemma about EncodeSlice/DecodeSlice)", key)
				return TupleV{}, true
			}
		}
	case typesPkg + ".EncodePtr", typesPkg + ".EncodePtrCast":
		if t, ok := fr.term(args[1]); ok && t.Sort.Kind == KDT && len(t.Sort.Ctors) == 2 {
			key := sliceItemKey(f, oname)
			c := stObj("ptr", key, t.Sort)
			if vt := valType(args[1]); vt != nil {
				stObjTypes[c.Name] = vt
			}
			if fr.emit(args[0], func(r *Term) *Term { return MkCtor(c, t, r) }) {
				return TupleV{}, true
			}
		}
	case typesPkg + ".DecodeSlice", typesPkg + ".DecodeSliceCast", typesPkg + ".DecodeSliceFn", typesPkg + ".DecodePtr", typesPkg + ".DecodePtrCast":
		g, d, ok := fr.decState(args[0])
		dst, ok2 := args[1].(PtrV)
		if ok && ok2 {
			var s *Sort
			func() {
				defer func() { recover() }()
				s = SortOf(dst.Elem)
			}()
			if s != nil {
				kind := "slice"
				if strings.Contains(oname, "Ptr") {
					kind = "ptr"
				}
				c := stObj(kind, sliceItemKey(f, oname), s)
				fs, good := fr.readItem(g, d, c, IntC(8))
				old := fr.load(dst)
				fr.store(dst, Ite(good, fs[0], old))
				return TupleV{}, true
			}
		}
	}
	// ---- nested codec of another type ----
	if (f.Name() == "EncodeTo" || f.Name() == "DecodeFrom") && f.Signature.Recv() != nil && len(args) == 2 && f.Pkg != nil && strings.HasPrefix(f.Pkg.Pkg.Path(), modPath) {
		elem := recvElem(f)
		if f == fr.ex.wireUnit || isLeafCodec(elem) || elem == nil || !fr.ex.P.isCodecType(elem) {
			return nil, false // executed (the unit under verification, a leaf array codec, or a one-directional helper type)
		}
		var s *Sort
		func() {
			defer func() { recover() }()
			s = SortOf(elem)
		}()
		if s == nil {
			return nil, false
		}
		c := stObj("obj", codecKey(elem), s)
		stObjTypes[c.Name] = elem
		if wireSkip[codecKey(elem)] {
			fr.ex.note("codec pair of %s is assumed inverse (outside the wire engine)", codecKey(elem))
		}
		if f.Name() == "EncodeTo" && isEncoderPtr(f.Signature.Params().At(0).Type()) {
			if t, ok := fr.valueOfRecv(args[0], elem); ok && t.Sort == s {
				if fr.emit(args[1], func(r *Term) *Term { return MkCtor(c, t, r) }) {
					fr.ex.wireDep(codecKey(elem))
					return TupleV{}, true
				}
			}
		}
		if f.Name() == "DecodeFrom" && isDecoderPtr(f.Signature.Params().At(0).Type()) {
			g, d, ok := fr.decState(args[1])
			if dst, ok2 := args[0].(PtrV); ok && ok2 {
				old := fr.load(dst)
				val := SelField(c, 0, decIn(d))
				conv := convertRepr(val, elem, dst.Elem)
				if old != nil && conv.Sort == old.Sort {
					_, good := fr.readItem(g, d, c, IntC(1))
					fr.store(dst, Ite(good, conv, old))
					fr.ex.wireDep(codecKey(elem))
					return TupleV{}, true
				}
			}
		}
	}
	return nil, false
}

// sliceItemKey identifies the element codec of a generic slice/pointer helper instance.
func sliceItemKey(f *ssa.Function, oname string) string {
	targs := f.TypeArgs()
	var parts []string
	for _, t := range targs {
		parts = append(parts, typeKey(t))
	}
	k := strings.Join(parts, ",")
	// the Cast variants name the wire type first; the plain variants name the element type
	if len(targs) > 0 {
		k = typeKey(targs[0])
		if p, ok := targs[0].(*types.Pointer); ok {
			k = typeKey(p.Elem())
		}
	}
	if strings.HasSuffix(oname, "Fn") {
		k += ":fn"
	}
	return k
}

// ---- type-directed wire equality ----

var wireIgnorePaths map[string]bool
var wirePath []string

func wireEq(t types.Type, a, b *Term, depth int) *Term {
	if a == b {
		return TTrue
	}
	if wireIgnorePaths[strings.Join(wirePath, ".")] {
		return TTrue
	}
	if a.Sort != b.Sort {
		return TFalse
	}
	if nt, ok := t.(*types.Named); ok && nt.Obj().Pkg() != nil && nt.Obj().Pkg().Path() == "time" && nt.Obj().Name() == "Time" {
		uf := DeclUF("fn:(time.Time).Unix", SInt, a.Sort)
		return Eq(App(uf, a), App(uf, b))
	}
	switch u := t.Underlying().(type) {
	case *types.Struct:
		c := structCtor(t)
		var cs []*Term
		for i := 0; i < u.NumFields(); i++ {
			if u.Field(i).Name() == "shared" {
				continue // ownership flag of StateElement: not transmitted
			}
			wirePath = append(wirePath, u.Field(i).Name())
			cs = append(cs, wireEq(u.Field(i).Type(), SelField(c, i, a), SelField(c, i, b), depth))
			wirePath = wirePath[:len(wirePath)-1]
		}
		return And(cs...)
	case *types.Array:
		if u.Len() <= 64 {
			var cs []*Term
			for i := int64(0); i < u.Len(); i++ {
				cs = append(cs, wireEq(u.Elem(), Select(a, IntC(i)), Select(b, IntC(i)), depth))
			}
			return And(cs...)
		}
		k := Sym(fmt.Sprintf("$w!%d", depth), SInt)
		return Forall([]*Term{k}, Implies(And(Le(IntC(0), k), Lt(k, IntC(u.Len()))), wireEq(u.Elem(), Select(a, k), Select(b, k), depth+1)))
	case *types.Slice:
		k := Sym(fmt.Sprintf("$w!%d", depth), SInt)
		return And(Eq(SliceLen(a), SliceLen(b)),
			Forall([]*Term{k}, Implies(And(Le(IntC(0), k), Lt(k, SliceLen(a))), wireEq(u.Elem(), SliceAt(a, k), SliceAt(b, k), depth+1))))
	case *types.Basic:
		if u.Info()&types.IsString != 0 {
			k := Sym(fmt.Sprintf("$w!%d", depth), SInt)
			return And(Eq(SliceLen(a), SliceLen(b)),
				Forall([]*Term{k}, Implies(And(Le(IntC(0), k), Lt(k, SliceLen(a))), Eq(SliceAt(a, k), SliceAt(b, k)))))
		}
		return Eq(a, b)
	case *types.Pointer:
		return And(Eq(PtrIsNil(a), PtrIsNil(b)), Implies(Not(PtrIsNil(a)), wireEq(u.Elem(), PtrVal(a), PtrVal(b), depth)))
	case *types.Interface:
		if ucs := unionCases[a.Sort]; ucs != nil {
			var cs []*Term
			for _, uc := range ucs {
				cs = append(cs, And(Eq(IsCtor(uc.Ctor, a), IsCtor(uc.Ctor, b)),
					Implies(IsCtor(uc.Ctor, a), wireEq(uc.Elem, SelField(uc.Ctor, 0, a), SelField(uc.Ctor, 0, b), depth))))
			}
			return And(cs...)
		}
	}
	return Eq(a, b)
}

var _ = big.NewInt

func (ex *Exec) wireDep(k string) {
	if ex.wireDeps == nil {
		ex.wireDeps = map[string]bool{}
	}
	ex.wireDeps[k] = true
}
