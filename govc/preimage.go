package main

// Hash-preimage engine (DESIGN §2.7c): the functions that compute IDs, signature hashes and
// accumulator leaves are executed symbolically with the Encoder ghost stream; the digest is
// H(stream) with H uninterpreted.  The clauses
//     preimage [of <expr>] covers <expr> [when <cond>]
//     preimage [of <expr>] excludes <lvalue> [when <cond>]
//     preimage [of <expr>] prefix "<text>"
// become obligations over the stream: `covers` = two inputs with equal streams agree on the
// expression; `excludes` = changing the location leaves the stream unchanged; `prefix` = the
// stream starts with the given raw bytes.  Collision resistance of the hash is what turns
// "different stream" into "different digest": it is an assumption, stated in the evidence.

import (
	"fmt"
	"go/types"
	"math/big"
	"sort"
	"strconv"
	"strings"

	"golang.org/x/tools/go/ssa"
)

var hashUF *UF

func hashApp(stream *Term) *Term {
	initStream()
	if hashUF == nil {
		hashUF = DeclUF("H:blake2b", ArraySort(SInt, SInt), streamS)
	}
	return App(hashUF, stream)
}

func (ex *Exec) namedType(pkg, name string) types.Type {
	pk := ex.P.ByPath[pkg]
	if pk == nil || pk.Types == nil {
		return nil
	}
	o := pk.Types.Scope().Lookup(name)
	if o == nil {
		return nil
	}
	return o.Type()
}

// newHasher: a fresh *types.Hasher whose E field points to a fresh Encoder cell.
func (fr *Frame) newHasher() (PtrV, bool) {
	ex := fr.ex
	ht, et := ex.namedType(typesPkg, "Hasher"), ex.namedType(typesPkg, "Encoder")
	if ht == nil || et == nil {
		return PtrV{}, false
	}
	hc := ex.newCell(ht, "hasher")
	ec := ex.newCell(et, "hasher.E")
	if ex.encCells == nil {
		ex.encCells = map[*Cell]bool{}
	}
	ex.encCells[ec] = true
	st := ht.Underlying().(*types.Struct)
	for i := 0; i < st.NumFields(); i++ {
		if st.Field(i).Name() == "E" {
			ex.ptrAliases = append(ex.ptrAliases, ptrAlias{hc, []PathEl{{Field: i}}, PtrV{Cell: ec, Elem: et}, nil})
		}
	}
	return PtrV{Cell: hc, Elem: ht}, true
}

// encoderOfHasher resolves h.E for a hasher pointer.
func (fr *Frame) encoderOfHasher(v Val) (PtrV, bool) {
	p, ok := v.(PtrV)
	if !ok {
		return PtrV{}, false
	}
	for _, al := range fr.ex.ptrAliases {
		if al.cell == p.Cell && len(al.path) == len(p.Path)+1 {
			return al.target, true
		}
	}
	return PtrV{}, false
}

func bytesRange(a *Term) *Term {
	k := Sym("$k!hash", SInt)
	return Forall([]*Term{k}, And(Le(IntC(0), Select(a, k)), Le(Select(a, k), IntC(255))))
}

// hashNative intercepts the hashing primitives.
func (fr *Frame) hashNative(f *ssa.Function, args []Val, in ssa.Instruction) (Val, bool) {
	ex := fr.ex
	name := f.String()
	initStream()
	switch name {
	case "(*sync.Pool).Get":
		// the hasher pools (types/hash.go, consensus/state.go): the result is asserted to
		// *types.Hasher by its user; any other pool is an unknown external call (a package-level
		// cache: reported as such by the purity obligations)
		isHasherPool := false
		if cv, okv := in.(ssa.Value); okv && cv.Referrers() != nil {
			for _, r := range *cv.Referrers() {
				if ta, okt := r.(*ssa.TypeAssert); okt && isNamedPtr(ta.AssertedType, typesPkg, "Hasher") {
					isHasherPool = true
				}
			}
		}
		if !isHasherPool {
			return nil, false
		}
		if hp, ok := fr.newHasher(); ok {
			ex.note("sync.Pool.Get returns a Hasher indistinguishable from a new one (every user calls Reset first)")
			return IfaceV{Dyn: hp, DynTyp: types.NewPointer(hp.Elem), Typ: f.Signature.Results().At(0).Type()}, true
		}
	case "(*sync.Pool).Put":
		return TupleV{}, true
	case typesPkg + ".NewHasher":
		if hp, ok := fr.newHasher(); ok {
			return hp, true
		}
	case "(*" + typesPkg + ".Hasher).Reset":
		if ep, ok := fr.encoderOfHasher(args[0]); ok {
			if fr.emitE(ep, emission{guard: fr.cur, reset: true}) {
				return TupleV{}, true
			}
		}
	case "(*" + typesPkg + ".Hasher).Sum":
		if ep, ok := fr.encoderOfHasher(args[0]); ok {
			if ctx := fr.curSeg(); ctx != nil {
				// a digest computed inside a summarised loop: the items written in this iteration
				st := foldLog(ctx.logs[ep.Cell], MkCtor(stNil))
				_ = st
				ctx.bad = "Hasher.Sum inside a summarised loop"
			}
			st := ex.streamOf(ep.Cell, MkCtor(stNil))
			h := hashApp(st)
			ex.assume(TTrue, bytesRange(h))
			ex.Trusted["BLAKE2b-256 modelled as an uninterpreted function of the item stream written to the Hasher (T9)"] = true
			return TV{h, f.Signature.Results().At(0).Type()}, true
		}
	case modPath + "/rhp/v4.sizeof":
		// sizeof(v): the number of bytes v.EncodeTo writes (computed on the item stream)
		if iv, ok := args[0].(IfaceV); ok && iv.Dyn != nil {
			ms := ex.P.SSA.MethodSets.MethodSet(iv.DynTyp)
			if sel := ms.Lookup(nil, "EncodeTo"); sel != nil {
				if mf := ex.P.SSA.MethodValue(sel); mf != nil {
					if et := ex.namedType(typesPkg, "Encoder"); et != nil {
						ec := ex.newCell(et, "sizeof.E")
						savedFlat := ex.flatWire
						ex.flatWire = true
						st := fr.captureStream(ec, func() {
							fr.callFunc(nil, mf, []Val{iv.Dyn, PtrV{Cell: ec, Elem: et}}, nil, in)
						})
						ex.flatWire = savedFlat
						if bl := byteLen(st); bl != nil && bl.Op == "int" {
							return TV{bl, types.Typ[types.Int]}, true
						}
					}
				}
			}
		}
	case modPath + "/blake2b.Sum256":
		if ex.P.Store.Funcs[name] != nil {
			return nil, false
		}
		if t, ok := fr.term(args[0]); ok && isSliceSort(t.Sort) {
			h := hashApp(MkCtor(stRaw, SliceLen(t), SliceOff(t), SliceArr(t), MkCtor(stNil)))
			ex.assume(TTrue, bytesRange(h))
			ex.Trusted["BLAKE2b-256 modelled as an uninterpreted function of the item stream written to the Hasher (T9)"] = true
			return TV{h, f.Signature.Results().At(0).Type()}, true
		}
	}
	return nil, false
}

var _ = fmt.Sprint
var _ = strings.Contains

// ---- clauses ----

type PreClause struct {
	Kind string // covers / excludes / prefix
	Of   *SExpr // nil: result
	Expr *SExpr
	When *SExpr
	Text string
	Src  string
	Line string
	ThenU8 int // prefix: the item after the distinguisher is this constant byte (-1: not required)
	Except []string // field paths (relative to Expr) not compared by covers
}

func parsePreimage(rest, where string) (*PreClause, error) {
	pc := &PreClause{Src: rest, Line: where}
	body := rest
	if strings.HasPrefix(body, "of ") {
		body = strings.TrimSpace(body[3:])
		cut := -1
		for _, kw := range []string{" covers ", " excludes ", " prefix "} {
			if j := strings.Index(body, kw); j >= 0 && (cut < 0 || j < cut) {
				cut = j
			}
		}
		if cut < 0 {
			return nil, fmt.Errorf("%s: preimage of ...: missing covers/excludes/prefix", where)
		}
		e, err := ParseSpec(strings.TrimSpace(body[:cut]))
		if err != nil {
			return nil, fmt.Errorf("%s: %v", where, err)
		}
		pc.Of = e
		body = strings.TrimSpace(body[cut:])
	}
	kw, arg, _ := strings.Cut(body, " ")
	arg = strings.TrimSpace(arg)
	switch kw {
	case "covers", "excludes":
		pc.Kind = kw
		if j := strings.Index(arg, " when "); j >= 0 {
			w, err := ParseSpec(strings.TrimSpace(arg[j+6:]))
			if err != nil {
				return nil, fmt.Errorf("%s: %v", where, err)
			}
			pc.When = w
			arg = strings.TrimSpace(arg[:j])
		}
		if j := strings.Index(arg, " except "); j >= 0 {
			pc.Except = strings.Fields(strings.ReplaceAll(arg[j+8:], ",", " "))
			arg = strings.TrimSpace(arg[:j])
		}
		e, err := ParseSpec(arg)
		if err != nil {
			return nil, fmt.Errorf("%s: %v", where, err)
		}
		pc.Expr = e
	case "prefix":
		pc.Kind = kw
		if j := strings.LastIndex(arg, "\" u8 "); j >= 0 {
			n, err := strconv.Atoi(strings.TrimSpace(arg[j+5:]))
			if err != nil {
				return nil, fmt.Errorf("%s: bad u8 value", where)
			}
			pc.ThenU8 = n
			arg = arg[:j+1]
		} else {
			pc.ThenU8 = -1
		}
		pc.Text = strings.Trim(arg, "\"")
	default:
		return nil, fmt.Errorf("%s: unknown preimage clause %q", where, kw)
	}
	return pc, nil
}

// stObjTypes: Go type of the value carried by an obj/slice/ptr item.
var stObjTypes = map[string]types.Type{}

// streamEq expands equality of two streams structurally.  As a hypothesis (hyp) it states what
// equal byte strings imply for self-delimiting items in the same order: equal primitive values,
// wire-equal nested objects (C11), equal inner streams for nested digests (collision
// resistance) and, for loop segments, equal counts and equal bodies at the index terms idx.
// As a goal it is a sufficient condition for equal bytes (segment bodies at a fresh index).
type streamEqCtx struct {
	hyp  bool
	idx  []*Term
	memo map[[2]*Term]*Term
	ex   *Exec
}

func (q *streamEqCtx) eq(a, b *Term) *Term {
	if a == b {
		return TTrue
	}
	k := [2]*Term{a, b}
	if r, ok := q.memo[k]; ok {
		return r
	}
	r := q.eq1(a, b)
	q.memo[k] = r
	return r
}

func (q *streamEqCtx) eq1(a, b *Term) *Term {
	if a.Op == "ite" {
		return Ite(a.Args[0], q.eq(a.Args[1], b), q.eq(a.Args[2], b))
	}
	if b.Op == "ite" {
		return Ite(b.Args[0], q.eq(a, b.Args[1]), q.eq(a, b.Args[2]))
	}
	if a.Op != "ctor" || b.Op != "ctor" {
		return Eq(a, b)
	}
	if a.Name != b.Name {
		return TFalse
	}
	c := ctorOf(a.Sort, a.Name)
	n := len(a.Args)
	switch {
	case c == stNil:
		return TTrue
	case isSegCtor(c):
		n1, l1, n2, l2 := a.Args[0], a.Args[1], b.Args[0], b.Args[1]
		var parts []*Term
		parts = append(parts, Eq(n1, n2))
		if l1 != l2 {
			if q.hyp {
				for _, t := range q.idx {
					parts = append(parts, Implies(And(Le(IntC(0), t), Lt(t, n1)), q.eq(Select(l1, t), Select(l2, t))))
				}
			} else {
				j := Fresh("segidx", SInt)
				parts = append(parts, Implies(And(Le(IntC(0), j), Lt(j, n1)), q.eq(Select(l1, j), Select(l2, j))))
			}
		}
		parts = append(parts, q.eq(a.Args[2], b.Args[2]))
		return And(parts...)
	case c == stRaw:
		return And(Eq(a.Args[0], b.Args[0]), q.rawEq(a.Args[0], a.Args[1], a.Args[2], b.Args[1], b.Args[2]), q.eq(a.Args[3], b.Args[3]))
	case strings.HasPrefix(c.Name, "st.obj:") || strings.HasPrefix(c.Name, "st.slice:") || strings.HasPrefix(c.Name, "st.ptr:"):
		var ve *Term
		if t := stObjTypes[c.Name]; t != nil && q.hyp {
			wireIgnorePaths = map[string]bool{}
			wirePath = nil
			ve = wireEq(t, a.Args[0], b.Args[0], 0)
		} else {
			ve = Eq(a.Args[0], b.Args[0])
		}
		return And(ve, q.eq(a.Args[n-1], b.Args[n-1]))
	}
	var parts []*Term
	for i := 0; i < n-1; i++ {
		parts = append(parts, Eq(a.Args[i], b.Args[i]))
	}
	parts = append(parts, q.eq(a.Args[n-1], b.Args[n-1]))
	return And(parts...)
}

func isHashApp(t *Term) bool { return t.Op == "app" && hashUF != nil && t.Name == hashUF.Name }

func (q *streamEqCtx) rawEq(ln, off1, d1, off2, d2 *Term) *Term {
	if d1 == d2 && off1 == off2 {
		return TTrue
	}
	if isHashApp(d1) && isHashApp(d2) && off1 == off2 {
		return q.eq(d1.Args[0], d2.Args[0])
	}
	if ln.Op == "int" && ln.Int.IsInt64() && ln.Int.Int64() <= 64 {
		var parts []*Term
		for i := int64(0); i < ln.Int.Int64(); i++ {
			parts = append(parts, Eq(Select(d1, Add(off1, IntC(i))), Select(d2, Add(off2, IntC(i)))))
		}
		return And(parts...)
	}
	if r := rangeOf(ln); r != nil && r.Lo.Sign() >= 0 && r.Hi.IsInt64() && r.Hi.Int64() <= 64 {
		// a short raw item of symbolic length (e.g. the 0- or 1-byte replay prefix)
		var parts []*Term
		for i := int64(0); i < r.Hi.Int64(); i++ {
			parts = append(parts, Implies(Lt(IntC(i), ln), Eq(Select(d1, Add(off1, IntC(i))), Select(d2, Add(off2, IntC(i))))))
		}
		return And(parts...)
	}
	k := Sym("$k!raw", SInt)
	return Forall([]*Term{k}, Implies(And(Le(IntC(0), k), Lt(k, ln)), Eq(Select(d1, Add(off1, k)), Select(d2, Add(off2, k)))))
}

// digestEq: equality of two digest terms (32-byte arrays).
func (q *streamEqCtx) digestEq(a, b *Term) *Term {
	if a == b {
		return TTrue
	}
	if a.Op == "ite" {
		return Ite(a.Args[0], q.digestEq(a.Args[1], b), q.digestEq(a.Args[2], b))
	}
	if b.Op == "ite" {
		return Ite(b.Args[0], q.digestEq(a, b.Args[1]), q.digestEq(a, b.Args[2]))
	}
	if isHashApp(a) && isHashApp(b) {
		return q.eq(a.Args[0], b.Args[0])
	}
	return Eq(a, b)
}

// updateAt rebuilds the root value of an l-value expression with the location replaced.
// It returns the root symbol and the updated root term.
func (e *SpecEnv) updateAt(x *SExpr, repl func(old *Term, typ types.Type) *Term) (root, nroot *Term) {
	switch x.Op {
	case "id":
		v := e.ident(x.S)
		switch p := v.(type) {
		case PtrV:
			if len(p.Path) == 0 {
				old := e.mem[p.Cell]
				if old == nil || old.Op != "sym" {
					e.fail("excludes: %s is not an input", x.S)
				}
				return old, repl(old, p.Elem)
			}
		case TV:
			if p.T.Op == "sym" {
				return p.T, repl(p.T, p.Typ)
			}
		}
		e.fail("excludes: %s is not an input location", x.S)
	case "sel":
		base := e.eval(x.Args[0])
		_, typ := e.deref(base)
		if typ == nil {
			e.fail("excludes: field of untyped value")
		}
		path, _, ok := fieldPathByName(typ, x.S)
		if !ok {
			e.fail("type %s has no field %s", typ, x.S)
		}
		return e.updateAt(x.Args[0], func(old *Term, ot types.Type) *Term {
			return updFields(old, ot, path, repl)
		})
	case "call":
		// asa(u, T): the payload of variant T of a sealed-interface value
		if x.Args[0].Op == "id" && x.Args[0].S == "asa" && len(x.Args) == 3 {
			tname := x.Args[2].S
			return e.updateAt(x.Args[1], func(old *Term, ot types.Type) *Term {
				for _, uc := range unionCases[old.Sort] {
					if nt, _ := uc.Elem.(*types.Named); nt != nil && nt.Obj().Name() == tname {
						payload := Typed(SelField(uc.Ctor, 0, old), uc.Elem)
						return Ite(IsCtor(uc.Ctor, old), MkCtor(uc.Ctor, repl(payload, uc.Elem)), old)
					}
				}
				panic(specErr{"excludes: " + tname + " is not an implementer"})
			})
		}
	case "idx":
		i := e.term(e.eval(x.Args[1]))
		return e.updateAt(x.Args[0], func(old *Term, ot types.Type) *Term {
			if p, ok := ot.Underlying().(*types.Pointer); ok {
				return PtrRef(old.Sort, updIndex(PtrVal(old), p.Elem(), i, repl))
			}
			return updIndex(old, ot, i, repl)
		})
	}
	e.fail("excludes: unsupported location expression")
	return nil, nil
}

func updIndex(old *Term, ot types.Type, i *Term, repl func(*Term, types.Type) *Term) *Term {
	switch u := ot.Underlying().(type) {
	case *types.Slice:
		at := Add(SliceOff(old), i)
		arr := Store(SliceArr(old), at, repl(Typed(Select(SliceArr(old), at), u.Elem()), u.Elem()))
		return UpdField(old.Sort.Ctors[0], 2, old, arr)
	case *types.Array:
		return Store(old, i, repl(Typed(Select(old, i), u.Elem()), u.Elem()))
	}
	panic(specErr{"excludes: cannot index " + ot.String()})
}

func updFields(old *Term, ot types.Type, path []int, repl func(*Term, types.Type) *Term) *Term {
	if len(path) == 0 {
		return repl(old, ot)
	}
	if p, ok := ot.Underlying().(*types.Pointer); ok {
		return PtrRef(old.Sort, updFields(PtrVal(old), p.Elem(), path, repl))
	}
	st := ot.Underlying().(*types.Struct)
	c := structCtor(ot)
	ft := st.Field(path[0]).Type()
	return UpdField(c, path[0], old, updFields(Typed(SelField(c, path[0], old), ft), ft, path[1:], repl))
}

// preimageObligations generates the obligations of the preimage clauses of con.
func (ex *Exec) preimageObligations(fr *Frame, con *Contract, entryEnv, post *SpecEnv, retG *Term, pos string) {
	if con.HashFamily != "" {
		func() {
			defer func() { recover() }()
			of := con.HashOf
			if of == nil {
				of = &SExpr{Op: "id", S: "result"}
			}
			dig := post.term(post.eval(of))
			if familyDigests[con.HashFamily] == nil {
				familyDigests[con.HashFamily] = map[string]*Term{}
			}
			familyDigests[con.HashFamily][ex.Unit] = dig
		}()
	}
	if len(con.Preimages) == 0 {
		return
	}
	// the second copy of the inputs
	sigma := map[*Term]*Term{}
	ghost := map[*Term]bool{}
	for _, g := range ex.ghosts {
		if tv, ok := g.(TV); ok {
			ghost[tv.T] = true
		}
	}
	idx := []*Term{IntC(0)} // the first element of every segment is always instantiated
	for t := range ghost {
		if t.Sort == SInt {
			idx = append(idx, t)
		}
	}
	for _, in := range ex.Inputs {
		if in.Op == "sym" && !ghost[in] {
			p := Sym(in.Name+"'", in.Sort)
			p.Rng = in.Rng
			sigma[in] = p
		}
	}
	prime := func(t *Term) *Term { return Subst(t, sigma) }
	// second input vector, named so that the replay can read it from the model
	bDefs := func(m map[*Term]*Term) (defs []*Term, syms []*Term) {
		for i, prm := range fr.fn.Params {
			var cur *Term
			switch a := fr.params[i].(type) {
			case PtrV:
				cur = fr.entry[a.Cell]
			case TV:
				cur = a.T
			}
			if cur == nil || cur.Op != "sym" {
				continue
			}
			b := Sym("pre!B!"+prm.Name(), cur.Sort)
			defs = append(defs, Eq(b, Subst(cur, m)))
			syms = append(syms, b)
		}
		return
	}
	mark := func(kind string, pc *PreClause, syms []*Term) {
		o := ex.Obls[len(ex.Obls)-1]
		o.Inputs = append(append([]*Term{}, o.Inputs...), syms...)
		of := ""
		if pc.Of != nil {
			of = pc.Of.Src
		}
		o.Pre = &PreReplay{Kind: kind, Of: of}
	}
	for n, pc := range con.Preimages {
		var dig *Term
		if pc.Of != nil {
			dig = post.term(post.eval(pc.Of))
		} else {
			dig = post.term(post.eval(&SExpr{Op: "id", S: "result"}))
		}
		label := fmt.Sprintf("preimage:%s:%s", pc.Kind, strings.ReplaceAll(strings.ReplaceAll(pc.Src, " ", ""), "preimage", ""))
		_ = n
		when := TTrue
		if pc.When != nil {
			t, err := entryEnv.EvalBool(pc.When)
			if err != nil {
				panic(specErr{fmt.Sprintf("%s: %v", pc.Line, err)})
			}
			when = t
		}
		switch pc.Kind {
		case "covers":
			v := entryEnv.eval(pc.Expr)
			vt := entryEnv.term(v)
			typ := valType(v)
			q := &streamEqCtx{hyp: true, idx: idx, memo: map[[2]*Term]*Term{}, ex: ex}
			hyp := q.digestEq(dig, prime(dig))
			var hyps []*Term
			for _, a := range ex.Assumes {
				if pa := prime(a); pa != a {
					hyps = append(hyps, pa)
				}
			}
			hyps = append(hyps, prime(retG), hyp, when)
			var goal *Term
			if typ != nil {
				wireIgnorePaths = map[string]bool{}
				for _, x := range pc.Except {
					wireIgnorePaths[x] = true
				}
				wirePath = nil
				goal = wireEq(typ, vt, prime(vt), 0)
			} else {
				goal = Eq(vt, prime(vt))
			}
			defs, syms := bDefs(sigma)
			hyps = append(hyps, defs...)
			ex.oblige(label, "preimage", pos, And(append([]*Term{retG}, hyps...)...), goal)
			mark("covers", pc, syms)
			// candidate counterexamples: the second input is the first with only this location changed
			func() {
				defer func() { recover() }()
				root, nroot := entryEnv.updateAt(pc.Expr, func(old *Term, typ types.Type) *Term {
					return Typed(Fresh("changed", old.Sort), typ)
				})
				var cand []*Term
				for s0, s1 := range sigma {
					if s0 == root {
						cand = append(cand, Eq(s1, nroot))
					} else {
						cand = append(cand, Eq(s1, s0))
					}
				}
				ex.Obls[len(ex.Obls)-1].Pre.Cand = cand
			}()
		case "excludes":
			var fresh *Term
			root, nroot := entryEnv.updateAt(pc.Expr, func(old *Term, typ types.Type) *Term {
				fresh = Typed(Fresh("changed", old.Sort), typ)
				return fresh
			})
			m := map[*Term]*Term{root: nroot}
			dig2 := Subst(dig, m)
			q := &streamEqCtx{hyp: false, memo: map[[2]*Term]*Term{}, ex: ex}
			goal := q.digestEq(dig, dig2)
			var hyps []*Term
			for _, a := range ex.Assumes {
				if pa := Subst(a, m); pa != a {
					hyps = append(hyps, pa)
				}
			}
			hyps = append(hyps, Subst(retG, m), when)
			defs, syms := bDefs(m)
			hyps = append(hyps, defs...)
			ex.oblige(label, "preimage", pos, And(append([]*Term{retG}, hyps...)...), goal)
			mark("excludes", pc, syms)
		case "prefix":
			want := StringConst(pc.Text)
			goal := streamHasPrefix(dig, want, len(pc.Text), pc.ThenU8)
			ex.oblige(label, "preimage", pos, retG, goal)
		}
	}
}

func valType(v Val) types.Type {
	switch x := v.(type) {
	case TV:
		return x.Typ
	case PtrV:
		return types.NewPointer(x.Elem)
	case SliceV:
		return x.Typ
	}
	return nil
}

// streamHasPrefix: the digest is H(raw(n, text) ...) with the given constant bytes first.
func streamHasPrefix(dig, want *Term, n int, u8 int) *Term {
	if dig.Op == "ite" {
		return Ite(dig.Args[0], streamHasPrefix(dig.Args[1], want, n, u8), streamHasPrefix(dig.Args[2], want, n, u8))
	}
	if !isHashApp(dig) {
		return TFalse
	}
	return streamStarts(dig.Args[0], want, n, u8)
}

func streamStarts(s, want *Term, n int, u8 int) *Term {
	if s.Op == "ite" {
		return Ite(s.Args[0], streamStarts(s.Args[1], want, n, u8), streamStarts(s.Args[2], want, n, u8))
	}
	if s.Op != "ctor" || s.Name != stRaw.Name {
		return TFalse
	}
	parts := []*Term{Eq(s.Args[0], IntC(int64(n)))}
	for i := 0; i < n; i++ {
		parts = append(parts, Eq(Select(s.Args[2], Add(s.Args[1], IntC(int64(i)))), SliceAt(want, IntC(int64(i)))))
	}
	if u8 >= 0 {
		nx := s.Args[3]
		if nx.Op != "ctor" || nx.Name != stU8.Name {
			return TFalse
		}
		parts = append(parts, Eq(nx.Args[0], IntC(int64(u8))))
	}
	return And(parts...)
}

func debugVars(e *SpecEnv) string {
	var ks []string
	for k := range e.vars {
		ks = append(ks, k)
	}
	return strings.Join(ks, ",")
}

// ---- domain separation (byte level) ----
//
// Functions of one `hash-family` must never hash equal byte strings.  The byte layout of the
// leading fixed-size items of each stream is computed from the symbolic stream; two streams are
// separated when (a) walking both in lockstep over items of equal fixed size reaches a position
// where both carry different constants, (b) their total lengths can never be equal, or (c) at an
// aligned position one has eight constant bytes whose little-endian value is outside the range
// of the other's uint64 item (a length prefix is at most maxLen).

var familyDigests = map[string]map[string]*Term{}

type byteItem struct {
	size  int64 // -1: variable
	konst []byte
	lo    *big.Int // uint64 item: value range
	hi    *big.Int
	min   int64 // variable item: minimal size
}

func streamItems(s *Term) (items []byteItem, closed bool) {
	for {
		if s.Op != "ctor" {
			return items, false
		}
		c := ctorOf(s.Sort, s.Name)
		n := len(s.Args)
		switch {
		case c == stNil:
			return items, true
		case c == stU8:
			it := byteItem{size: 1}
			if s.Args[0].Op == "int" {
				it.konst = []byte{byte(s.Args[0].Int.Uint64())}
			}
			items = append(items, it)
		case c == stU64:
			it := byteItem{size: 8}
			if s.Args[0].Op == "int" {
				v := s.Args[0].Int.Uint64()
				for i := 0; i < 8; i++ {
					it.konst = append(it.konst, byte(v>>(8*i)))
				}
			} else if r := rangeOf(s.Args[0]); r != nil {
				it.lo, it.hi = r.Lo, r.Hi
			}
			items = append(items, it)
		case c == stRaw:
			ln := s.Args[0]
			if ln.Op != "int" || !ln.Int.IsInt64() || ln.Int.Int64() > 4096 {
				items = append(items, byteItem{size: -1})
			} else {
				it := byteItem{size: ln.Int.Int64()}
				var bs []byte
				for i := int64(0); i < it.size; i++ {
					b := Select(s.Args[2], Add(s.Args[1], IntC(i)))
					if b.Op != "int" {
						bs = nil
						break
					}
					bs = append(bs, byte(b.Int.Uint64()))
				}
				if int64(len(bs)) == it.size {
					it.konst = bs
				}
				items = append(items, it)
			}
		case strings.HasPrefix(c.Name, "st.slice:"):
			// length prefix (<= maxLen) followed by the elements
			items = append(items, byteItem{size: 8, lo: big.NewInt(0), hi: new(big.Int).Lsh(big.NewInt(1), 40)}, byteItem{size: -1})
		case strings.HasPrefix(c.Name, "st.ptr:"):
			items = append(items, byteItem{size: -1, min: 1})
		default:
			items = append(items, byteItem{size: -1})
		}
		s = s.Args[n-1]
	}
}

func leU64(b []byte) *big.Int {
	v := new(big.Int)
	for i := 7; i >= 0; i-- {
		v.Lsh(v, 8)
		v.Or(v, big.NewInt(int64(b[i])))
	}
	return v
}

// separated reports why two streams can never be equal byte strings ("" if undecided).
func separated(a, b *Term) string {
	ia, ca := streamItems(a)
	ib, cb := streamItems(b)
	total := func(items []byteItem, closed bool) (min int64, fixed bool) {
		fixed = closed
		for _, it := range items {
			if it.size < 0 {
				fixed = false
				min += it.min
			} else {
				min += it.size
			}
		}
		return
	}
	ma, fa := total(ia, ca)
	mb, fb := total(ib, cb)
	if fa && fb && ma != mb {
		return fmt.Sprintf("total lengths differ (%d vs %d bytes)", ma, mb)
	}
	if fa && mb > ma || fb && ma > mb {
		return fmt.Sprintf("one is exactly %d bytes, the other at least %d", min64(ma, mb), max64(ma, mb))
	}
	// lockstep over a common byte offset
	var bufA, bufB []byte // constant bytes pending comparison (nil entries are unknown)
	_ = bufA
	_ = bufB
	flat := func(items []byteItem) (bytesK []int16, u64s map[int][2]*big.Int, known int) {
		u64s = map[int][2]*big.Int{}
		for _, it := range items {
			if it.size < 0 {
				break
			}
			if it.lo != nil {
				u64s[len(bytesK)] = [2]*big.Int{it.lo, it.hi}
			}
			for i := int64(0); i < it.size; i++ {
				if it.konst != nil {
					bytesK = append(bytesK, int16(it.konst[i]))
				} else {
					bytesK = append(bytesK, -1)
				}
			}
		}
		return bytesK, u64s, len(bytesK)
	}
	ka, ua, na := flat(ia)
	kb, ub, nb := flat(ib)
	n := na
	if nb < n {
		n = nb
	}
	for i := 0; i < n; i++ {
		if ka[i] >= 0 && kb[i] >= 0 && ka[i] != kb[i] {
			return fmt.Sprintf("constant byte at offset %d differs (%#x vs %#x)", i, ka[i], kb[i])
		}
	}
	chk := func(k []int16, u map[int][2]*big.Int, nk int) string {
		for off, r := range u {
			if off+8 > nk {
				continue
			}
			var bs []byte
			for i := 0; i < 8; i++ {
				if k[off+i] < 0 {
					bs = nil
					break
				}
				bs = append(bs, byte(k[off+i]))
			}
			if bs == nil {
				continue
			}
			v := leU64(bs)
			if v.Cmp(r[0]) < 0 || v.Cmp(r[1]) > 0 {
				return fmt.Sprintf("bytes %d..%d: constant %s is outside the other's integer range [%s,%s]", off, off+7, v, r[0], r[1])
			}
		}
		return ""
	}
	if why := chk(kb, ua, nb); why != "" {
		return why
	}
	if why := chk(ka, ub, na); why != "" {
		return why
	}
	return ""
}

func min64(a, b int64) int64 {
	if a < b {
		return a
	}
	return b
}
func max64(a, b int64) int64 {
	if a > b {
		return a
	}
	return b
}

// domainSepEngine: pairwise separation of the members of every hash family verified in this run.
func domainSepEngine(p *Program, res *CheckResult) {
	var fams []string
	for f := range familyDigests {
		fams = append(fams, f)
	}
	sort.Strings(fams)
	for _, fam := range fams {
		m := familyDigests[fam]
		var names []string
		for n := range m {
			names = append(names, n)
		}
		sort.Strings(names)
		rep := &FuncReport{Name: "domain-separation:" + fam, Pos: "contract clause hash-family " + fam}
		for i := 0; i < len(names); i++ {
			for j := i + 1; j < len(names); j++ {
				a, b := m[names[i]], m[names[j]]
				o := &Obligation{Name: "domain-separation:" + fam + "/" + names[i] + "~" + names[j], Kind: "domain-sep", Func: rep.Name, Pos: rep.Pos, Expect: "unsat", Goal: TFalse}
				why := ""
				if isHashApp(a) && isHashApp(b) {
					why = separated(a.Args[0], b.Args[0])
				}
				if why != "" {
					o.Goal = TTrue
					o.Note = why
				} else {
					o.Note = "no separation argument found"
				}
				rep.Obls = append(rep.Obls, o)
			}
		}
		rep.Assumed = append(rep.Assumed, "domain separation is decided on the byte layout of the leading fixed-size items of the symbolic streams (distinct constants at equal offsets, disjoint total lengths, or a constant outside a length prefix's range <= 2^40)")
		res.Reports = append(res.Reports, rep)
		res.Obls = append(res.Obls, rep.Obls...)
	}
}

// ---- byte length of streams (C19) ----

// captureStream runs fn with the emissions to encoder cell c redirected to a private log and
// returns that log folded into a nil-terminated stream.
func (fr *Frame) captureStream(c *Cell, fn func()) *Term {
	ex := fr.ex
	saved := ex.encLog[c]
	if ex.encLog == nil {
		ex.encLog = map[*Cell][]emission{}
	}
	ex.encLog[c] = nil
	savedInh, savedSegs, savedBlk := fr.inheritSeg, fr.segs, fr.curBlock
	fr.inheritSeg, fr.segs, fr.curBlock = nil, nil, nil
	fn()
	fr.inheritSeg, fr.segs, fr.curBlock = savedInh, savedSegs, savedBlk
	log := ex.encLog[c]
	ex.encLog[c] = saved
	// guards relative to the current path
	rel := make([]emission, len(log))
	copy(rel, log)
	drop := map[*Term]bool{}
	for _, g := range conjuncts(fr.cur) {
		drop[g] = true
	}
	for i := range rel {
		var keep []*Term
		for _, g := range conjuncts(rel[i].guard) {
			if !drop[g] {
				keep = append(keep, g)
			}
		}
		rel[i].guard = And(keep...)
	}
	return foldLog(rel, MkCtor(stNil))
}

// flatSlice: EncodeSlice / EncodeSliceCast in flat mode: the length prefix and one segment whose
// body is the element codec run on the element at the segment index.
func (fr *Frame) flatSlice(f *ssa.Function, args []Val, in ssa.Instruction, oname string) bool {
	ep, ok := args[0].(PtrV)
	st, ok2 := fr.term(args[1])
	if !ok || !ok2 || !isSliceSort(st.Sort) || len(ep.Path) != 0 {
		return false
	}
	targs := f.TypeArgs()
	if len(targs) == 0 {
		return false
	}
	// the element codec: method EncodeTo of the first type argument (wire type)
	wt := targs[0]
	ms := fr.ex.P.SSA.MethodSets.MethodSet(wt)
	sel := ms.Lookup(nil, "EncodeTo")
	if sel == nil {
		ms = fr.ex.P.SSA.MethodSets.MethodSet(types.NewPointer(wt))
		sel = ms.Lookup(nil, "EncodeTo")
	}
	if sel == nil {
		return false
	}
	mf := fr.ex.P.SSA.MethodValue(sel)
	if mf == nil {
		return false
	}
	st2, ok3 := args[1].(TV)
	if !ok3 {
		return false
	}
	sl, _ := st2.Typ.Underlying().(*types.Slice)
	if sl == nil {
		return false
	}
	elemT := sl.Elem()
	elem := Typed(Select(SliceArr(st), Add(SliceOff(st), lamVar)), elemT)
	elemW := convertRepr(elem, elemT, wt)
	var recv Val = TV{elemW, wt}
	if _, isP := mf.Signature.Recv().Type().(*types.Pointer); isP {
		recv = ValPtr{Root: elemW, Elem: wt}
	}
	n := SliceLen(st)
	body := fr.captureStream(ep.Cell, func() {
		fr.callFunc(nil, mf, []Val{recv, args[0]}, nil, in)
	})
	site := fmt.Sprintf("%s@%s", shortName(fr.fn.String()), fr.site(in))
	cst := stSeg(site)
	lam := Lam(lamVar, body)
	fr.emit(args[0], func(r *Term) *Term { return MkCtor(stU64, n, MkCtor(cst, n, lam, r)) })
	return true
}

// byteLen: the number of bytes of a stream, when every item has a determined size (segments:
// count times a body size that does not depend on the index).  nil if not determined.
func byteLen(s *Term) *Term {
	switch {
	case s.Op == "ite":
		a, b := byteLen(s.Args[1]), byteLen(s.Args[2])
		if a == nil || b == nil {
			return nil
		}
		return Ite(s.Args[0], a, b)
	case s.Op != "ctor":
		return nil
	}
	c := ctorOf(s.Sort, s.Name)
	n := len(s.Args)
	if c == stNil {
		return IntC(0)
	}
	rest := byteLen(s.Args[n-1])
	if rest == nil {
		return nil
	}
	switch {
	case c == stU8:
		return Add(IntC(1), rest)
	case c == stU64:
		return Add(IntC(8), rest)
	case c == stRaw:
		return Add(s.Args[0], rest)
	case isSegCtor(c):
		lam := s.Args[1]
		if lam.Op != "lam" {
			return nil
		}
		bl := byteLen(lam.Args[0])
		if bl == nil {
			return nil
		}
		dep := false
		collect([]*Term{bl}, func(t *Term) {
			if t == lam.Bnd[0] {
				dep = true
			}
		})
		if dep {
			return nil
		}
		return Add(Mul(s.Args[0], bl), rest)
	}
	return nil
}

// wireLenObligations: `wire-length <= e` clauses of a function that writes to its Encoder parameter.
func (ex *Exec) wireLenObligations(fr *Frame, con *Contract, post *SpecEnv, retG *Term, pos string) {
	if len(con.WireLen) == 0 {
		return
	}
	var ec *Cell
	for i, p := range fr.fn.Params {
		if isEncoderPtr(p.Type()) {
			if pv, ok := fr.params[i].(PtrV); ok {
				ec = pv.Cell
			}
		}
	}
	if ec == nil {
		ex.oos("%s: wire-length: no Encoder parameter", shortName(fr.fn.String()))
		return
	}
	st := ex.streamOf(ec, MkCtor(stNil))
	bl := byteLen(st)
	for _, cl := range con.WireLen {
		lim := post.term(post.eval(cl.Expr))
		label := "wire-length:" + strings.ReplaceAll(cl.Src, " ", "")
		if bl == nil {
			ex.oos("%s: wire-length: the encoded size is not determined by the stream items (nested variable-size objects)", shortName(fr.fn.String()))
			ex.oblige(label, "wire-length", pos, retG, TFalse)
			continue
		}
		ex.oblige(label, "wire-length", pos, retG, Le(bl, lim))
	}
}
