package main

// Lexer and parser for the contract expression language.

import (
	"fmt"
	"math/big"
	"strings"
)

type tokKind int

const (
	tEOF tokKind = iota
	tIdent
	tNum
	tStr
	tOp
)

type stok struct {
	k   tokKind
	s   string
	pos int
}

func lexSpec(src string) ([]stok, error) {
	var toks []stok
	i := 0
	for i < len(src) {
		c := src[i]
		switch {
		case c == ' ' || c == '\t' || c == '\n' || c == '\r':
			i++
		case c >= '0' && c <= '9':
			j := i
			if c == '0' && i+1 < len(src) && (src[i+1] == 'x' || src[i+1] == 'X') {
				j = i + 2
				for j < len(src) && strings.ContainsRune("0123456789abcdefABCDEF_", rune(src[j])) {
					j++
				}
			} else {
				for j < len(src) && (src[j] >= '0' && src[j] <= '9' || src[j] == '_') {
					j++
				}
			}
			toks = append(toks, stok{tNum, src[i:j], i})
			i = j
		case c == '_' || c >= 'a' && c <= 'z' || c >= 'A' && c <= 'Z' || c == '$':
			j := i
			for j < len(src) && (src[j] == '_' || src[j] == '$' || src[j] == '#' && j > i || src[j] >= 'a' && src[j] <= 'z' || src[j] >= 'A' && src[j] <= 'Z' || src[j] >= '0' && src[j] <= '9') {
				j++
			}
			toks = append(toks, stok{tIdent, src[i:j], i})
			i = j
		case c == '"':
			j := i + 1
			for j < len(src) && src[j] != '"' {
				if src[j] == '\\' {
					j++
				}
				j++
			}
			if j >= len(src) {
				return nil, fmt.Errorf("unterminated string at %d", i)
			}
			toks = append(toks, stok{tStr, src[i+1 : j], i})
			i = j + 1
		default:
			ops := []string{"<==>", "==>", "::", "..", "==", "!=", "<=", ">=", "&&", "||", "<<", ">>", "&^"}
			matched := false
			for _, op := range ops {
				if strings.HasPrefix(src[i:], op) {
					toks = append(toks, stok{tOp, op, i})
					i += len(op)
					matched = true
					break
				}
			}
			if !matched {
				if strings.ContainsRune("+-*/%^<>!()[]{}.,:?=&|", rune(c)) {
					toks = append(toks, stok{tOp, string(c), i})
					i++
				} else {
					return nil, fmt.Errorf("unexpected character %q at %d in %q", c, i, src)
				}
			}
		}
	}
	toks = append(toks, stok{tEOF, "", len(src)})
	return toks, nil
}

// SExpr is a spec AST node.
type SExpr struct {
	Op   string // "num","id","str","bin","un","call","sel","idx","slice","tern","forall","exists","old"
	S    string // operator / identifier / field name
	N    *big.Int
	Args []*SExpr
	Src  string
}

type specParser struct {
	toks []stok
	p    int
	src  string
}

func ParseSpec(src string) (e *SExpr, err error) {
	toks, err := lexSpec(src)
	if err != nil {
		return nil, err
	}
	sp := &specParser{toks: toks, src: src}
	defer func() {
		if r := recover(); r != nil {
			if pe, ok := r.(parseErr); ok {
				err = fmt.Errorf("spec parse error: %s in %q", string(pe), src)
				return
			}
			panic(r)
		}
	}()
	e = sp.expr()
	if sp.peek().k != tEOF {
		sp.fail("trailing tokens at %q", sp.peek().s)
	}
	e.Src = src
	return e, nil
}

type parseErr string

func (sp *specParser) fail(f string, a ...any) { panic(parseErr(fmt.Sprintf(f, a...))) }
func (sp *specParser) peek() stok            { return sp.toks[sp.p] }
func (sp *specParser) next() stok            { t := sp.toks[sp.p]; sp.p++; return t }
func (sp *specParser) isOp(s string) bool     { t := sp.peek(); return t.k == tOp && t.s == s }
func (sp *specParser) isKw(s string) bool     { t := sp.peek(); return t.k == tIdent && t.s == s }
func (sp *specParser) accept(s string) bool {
	if sp.isOp(s) {
		sp.p++
		return true
	}
	return false
}
func (sp *specParser) expect(s string) {
	if !sp.accept(s) {
		sp.fail("expected %q, got %q", s, sp.peek().s)
	}
}

func (sp *specParser) expr() *SExpr { return sp.iff() }

func (sp *specParser) iff() *SExpr {
	l := sp.imp()
	for sp.accept("<==>") {
		r := sp.imp()
		l = &SExpr{Op: "bin", S: "<==>", Args: []*SExpr{l, r}}
	}
	return l
}

func (sp *specParser) imp() *SExpr {
	l := sp.tern()
	if sp.accept("==>") {
		r := sp.imp()
		return &SExpr{Op: "bin", S: "==>", Args: []*SExpr{l, r}}
	}
	return l
}

func (sp *specParser) tern() *SExpr {
	c := sp.or()
	if sp.accept("?") {
		a := sp.expr()
		sp.expect(":")
		b := sp.tern()
		return &SExpr{Op: "tern", Args: []*SExpr{c, a, b}}
	}
	return c
}

func (sp *specParser) or() *SExpr {
	l := sp.and()
	for sp.accept("||") {
		r := sp.and()
		l = &SExpr{Op: "bin", S: "||", Args: []*SExpr{l, r}}
	}
	return l
}

func (sp *specParser) and() *SExpr {
	l := sp.cmp()
	for sp.accept("&&") {
		r := sp.cmp()
		l = &SExpr{Op: "bin", S: "&&", Args: []*SExpr{l, r}}
	}
	return l
}

func (sp *specParser) cmp() *SExpr {
	l := sp.add()
	for _, op := range []string{"==", "!=", "<=", ">=", "<", ">"} {
		if sp.accept(op) {
			r := sp.add()
			return &SExpr{Op: "bin", S: op, Args: []*SExpr{l, r}}
		}
	}
	return l
}

func (sp *specParser) add() *SExpr {
	l := sp.mul()
	for {
		if sp.accept("+") {
			l = &SExpr{Op: "bin", S: "+", Args: []*SExpr{l, sp.mul()}}
		} else if sp.accept("-") {
			l = &SExpr{Op: "bin", S: "-", Args: []*SExpr{l, sp.mul()}}
		} else {
			return l
		}
	}
}

func (sp *specParser) mul() *SExpr {
	l := sp.unary()
	for {
		switch {
		case sp.accept("*"):
			l = &SExpr{Op: "bin", S: "*", Args: []*SExpr{l, sp.unary()}}
		case sp.accept("/"):
			l = &SExpr{Op: "bin", S: "/", Args: []*SExpr{l, sp.unary()}}
		case sp.accept("%"):
			l = &SExpr{Op: "bin", S: "%", Args: []*SExpr{l, sp.unary()}}
		case sp.isKw("div"):
			sp.next()
			l = &SExpr{Op: "bin", S: "/", Args: []*SExpr{l, sp.unary()}}
		case sp.isKw("mod"):
			sp.next()
			l = &SExpr{Op: "bin", S: "%", Args: []*SExpr{l, sp.unary()}}
		default:
			return l
		}
	}
}

func (sp *specParser) unary() *SExpr {
	if sp.accept("!") {
		return &SExpr{Op: "un", S: "!", Args: []*SExpr{sp.unary()}}
	}
	if sp.accept("-") {
		return &SExpr{Op: "un", S: "-", Args: []*SExpr{sp.unary()}}
	}
	if sp.accept("*") {
		return &SExpr{Op: "un", S: "*", Args: []*SExpr{sp.unary()}}
	}
	return sp.pow()
}

func (sp *specParser) pow() *SExpr {
	b := sp.postfix()
	if sp.accept("^") {
		e := sp.unary()
		return &SExpr{Op: "bin", S: "^", Args: []*SExpr{b, e}}
	}
	return b
}

func (sp *specParser) postfix() *SExpr {
	e := sp.primary()
	for {
		switch {
		case sp.accept("."):
			t := sp.next()
			if t.k != tIdent && t.k != tNum {
				sp.fail("expected field after '.', got %q", t.s)
			}
			e = &SExpr{Op: "sel", S: t.s, Args: []*SExpr{e}}
		case sp.accept("["):
			var lo, hi *SExpr
			if !sp.isOp(":") {
				lo = sp.expr()
			}
			if sp.accept(":") {
				if !sp.isOp("]") {
					hi = sp.expr()
				}
				sp.expect("]")
				e = &SExpr{Op: "slice", Args: []*SExpr{e, lo, hi}}
			} else {
				sp.expect("]")
				e = &SExpr{Op: "idx", Args: []*SExpr{e, lo}}
			}
		case sp.isOp("("):
			sp.next()
			var args []*SExpr
			for !sp.isOp(")") {
				args = append(args, sp.expr())
				if !sp.accept(",") {
					break
				}
			}
			sp.expect(")")
			e = &SExpr{Op: "call", Args: append([]*SExpr{e}, args...)}
		default:
			return e
		}
	}
}

func (sp *specParser) primary() *SExpr {
	t := sp.next()
	switch t.k {
	case tNum:
		n := new(big.Int)
		if _, ok := n.SetString(strings.ReplaceAll(t.s, "_", ""), 0); !ok {
			sp.fail("bad number %q", t.s)
		}
		return &SExpr{Op: "num", N: n}
	case tStr:
		return &SExpr{Op: "str", S: t.s}
	case tIdent:
		if t.s == "forall" || t.s == "exists" {
			v := sp.next()
			if v.k != tIdent {
				sp.fail("expected bound variable")
			}
			if !sp.isKw("in") {
				// typed quantifier: forall x T :: body   (T a Go type, tokens up to '::')
				var typ strings.Builder
				for !sp.isOp("::") {
					if sp.peek().k == tEOF {
						sp.fail("expected '::' in typed quantifier")
					}
					typ.WriteString(sp.next().s)
				}
				sp.expect("::")
				body := sp.expr()
				return &SExpr{Op: t.s + "T", S: v.s, Args: []*SExpr{{Op: "str", S: typ.String()}, body}}
			}
			sp.next()
			lo := sp.add()
			sp.expect("..")
			hi := sp.add()
			sp.expect("::")
			body := sp.expr()
			return &SExpr{Op: t.s, S: v.s, Args: []*SExpr{lo, hi, body}}
		}
		return &SExpr{Op: "id", S: t.s}
	case tOp:
		if t.s == "(" {
			e := sp.expr()
			sp.expect(")")
			return e
		}
	}
	sp.fail("unexpected token %q", t.s)
	return nil
}
