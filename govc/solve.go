package main

import (
	"bytes"
	"context"
	"crypto/sha256"
	"encoding/hex"
	"fmt"
	"os"
	"os/exec"
	"path/filepath"
	"strings"
	"sync"
	"time"
)

func sha256hex(s string) string {
	h := sha256.Sum256([]byte(s))
	return hex.EncodeToString(h[:])
}

type SolverCfg struct {
	WorkDir   string
	TimeoutMS int
	Seed      int
	Jobs      int
	AllAgree  bool // thorough: run every solver and compare
	Keep      bool
	StageMS   int // time limit of the cheap stages (default 6000)
}

type solverRes struct {
	solver string
	status string // sat / unsat / unknown / timeout / error
	out    string
	ms     int64
}

func runSolver(ctx context.Context, solver, file string, timeoutMS, seed int) solverRes {
	var cmd *exec.Cmd
	secs := (timeoutMS + 999) / 1000
	switch solver {
	case "z3-new":
		cmd = exec.CommandContext(ctx, "z3-new", fmt.Sprintf("-T:%d", secs), fmt.Sprintf("smt.random_seed=%d", seed), file)
	case "z3":
		cmd = exec.CommandContext(ctx, "z3", fmt.Sprintf("-T:%d", secs), fmt.Sprintf("smt.random_seed=%d", seed), file)
	case "cvc5":
		cmd = exec.CommandContext(ctx, "cvc5", fmt.Sprintf("--tlimit=%d", timeoutMS), fmt.Sprintf("--seed=%d", seed), file)
	}
	var out bytes.Buffer
	cmd.Stdout = &out
	cmd.Stderr = &out
	t0 := time.Now()
	err := cmd.Run()
	ms := time.Since(t0).Milliseconds()
	s := out.String()
	first := strings.TrimSpace(strings.SplitN(s, "\n", 2)[0])
	st := "error"
	switch first {
	case "sat", "unsat", "unknown":
		st = first
	case "timeout":
		st = "timeout"
	default:
		if ctx.Err() != nil {
			st = "cancelled"
		} else if strings.Contains(s, "timeout") || strings.Contains(s, "interrupted") {
			st = "timeout"
		} else if err != nil && first == "" {
			st = "timeout"
		}
	}
	return solverRes{solver, st, s, ms}
}

func usesQuantOrRec(o *Obligation) bool {
	if len(o.Recs) > 0 {
		return true
	}
	q := false
	collect(append(append([]*Term{}, o.Hyps...), o.Goal), func(t *Term) {
		if t.Op == "forall" || t.Op == "exists" {
			q = true
		}
	})
	return q
}

// Solve discharges one obligation.
func Solve(o *Obligation, cfg *SolverCfg, idx int) {
	if o.Expect == "unsat" && o.Goal.IsTrue() {
		o.Status, o.Solver = "discharged", "simplifier"
		return
	}
	candText := ""
	stageProved := false
	// Cheap sound stages first (dropping hypotheses and abstracting non-linear sub-terms by fresh
	// constants both only weaken the hypotheses, so `unsat` is a valid discharge):
	//   qf+nl : quantified hypotheses dropped, non-linear terms abstracted
	//   qf    : quantified hypotheses dropped
	//   nl    : non-linear terms abstracted
	if o.Expect == "unsat" {
		type variant struct {
			name string
			text string
		}
		var vars []variant
		renderMu.Lock()
		neg := negateGoal(skolemizeGoal(o.Goal))
		var qf []*Term
		nq := 0
		var quants []*Term
		negParts := splitConj([]*Term{neg})
		var negQF []*Term
		for _, h := range negParts {
			if hasQuantifier(h) {
				quants = append(quants, h)
				nq++
			} else {
				negQF = append(negQF, h)
			}
		}
		negGround := And(negQF...)
		for _, h := range splitConj(o.Hyps) {
			if hasQuantifier(h) {
				nq++
				quants = append(quants, h)
			} else {
				qf = append(qf, h)
			}
		}
		// replace dropped universally quantified hypotheses by their instances at the ground terms
		// that match their triggers (manual E-matching; instances are consequences)
		var qAtoms []*Term
		if nq > 0 {
			ground := append(append([]*Term{}, qf...), negGround)
			instKeepSiblings = o.Kind == "preimage"
			var qinst []*Term
			instQuantOut = &qinst
			qf = append(qf, instantiateForalls(quants, ground)...)
			instQuantOut = nil
			if os.Getenv("GOVC_NOQATOMS") == "" {
				qAtoms = quantAtomStage(qf, quants, qinst, negGround, ground)
			}
		}
		allH := append(append([]*Term{}, o.Hyps...), neg)
		qfH := append(append([]*Term{}, qf...), negGround)
		if nq > 0 {
			if abs, n := abstractNonlinear(qfH); n > 0 {
				vars = append(vars, variant{"qf+nl-abstracted", (&Script{Asserts: abs, RecDefs: o.Recs}).Render()})
			}
			vars = append(vars, variant{"qf-hyps", (&Script{Asserts: qfH, RecDefs: o.Recs}).Render()})
			if qAtoms != nil {
				vars = append(vars, variant{"q-atoms", (&Script{Asserts: qAtoms, RecDefs: o.Recs}).Render()})
			}
		}
		if abs, n := abstractNonlinear(allH); n > 0 {
			vars = append(vars, variant{"nl-abstracted", (&Script{Asserts: abs, RecDefs: o.Recs}).Render()})
		}
		if o.Pre != nil || (nq > 0 && o.Kind != "cover") {
			// a model of the weakened problem is only a candidate: it counts when its replay on the
			// real code shows the two digests equal (covers) / different (excludes)
			// prefer small counterexamples: every slice length mentioned is at most 2
			small := append([]*Term{}, qfH...)
			if o.Pre != nil {
				small = append(small, o.Pre.Cand...)
			}
			collect(qfH, func(t *Term) {
				if t.Op == "sel" && strings.HasSuffix(t.Name, ".len") && t.Sort == SInt {
					small = append(small, mk("<=", "", SBool, nil, t, IntC(2)))
				}
			})
			candText = (&Script{Asserts: small, Want: o.Inputs, RecDefs: o.Recs}).Render()
		}
		renderMu.Unlock()
		for vi, v := range vars {
			f0 := filepath.Join(cfg.WorkDir, fmt.Sprintf("o%05d.s%d.smt2", idx, vi))
			os.WriteFile(f0, []byte(v.text), 0o644)
			stageMS := cfg.StageMS
			if stageMS == 0 {
				stageMS = 12000
			}
			r := runSolver(context.Background(), "z3-new", f0, stageMS, cfg.Seed)
			if !cfg.Keep {
				os.Remove(f0)
			}
			if r.status == "unsat" {
				o.Status, o.Solver, o.TimeMS, o.SMTSize = "discharged", "z3-new("+v.name+")", r.ms, len(v.text)
				if !cfg.AllAgree {
					return
				}
				// thorough tier: a proof by a sound weakening is a proof; the full query is still
				// given to every solver, which get 15 seconds to contradict it
				stageProved = true
				break
			}
		}
	}
	renderMu.Lock()
	asserts := append([]*Term{}, o.Hyps...)
	if o.Expect == "unsat" {
		// the skolemised negation (equisatisfiable): its ground terms take part in the bounded
		// unfolding of recursive specification functions, which a bound variable cannot
		asserts = append(asserts, negateGoal(skolemizeGoal(o.Goal)))
	}
	sc := &Script{Asserts: asserts, Want: o.Inputs, RecDefs: o.Recs, MBQI: o.Expect == "sat"}
	text := sc.Render()
	sc.ForCVC5 = true
	text2 := sc.Render()
	renderMu.Unlock()
	o.SMTSize = len(text)
	base := filepath.Join(cfg.WorkDir, fmt.Sprintf("o%05d", idx))
	f1 := base + ".smt2"
	os.WriteFile(f1, []byte(text), 0o644)
	f2 := base + ".cvc5.smt2"
	os.WriteFile(f2, []byte(text2), 0o644)
	if !cfg.Keep {
		defer os.Remove(f1)
		defer os.Remove(f2)
	}
	want := o.Expect
	decide := func(r solverRes) bool {
		if r.status == "sat" || r.status == "unsat" {
			o.Solver, o.TimeMS = r.solver, r.ms
			if r.status == want {
				o.Status = "discharged"
			} else {
				o.Status = "failed"
				if r.status == "sat" {
					o.Model = modelText(r.out)
				}
			}
			return true
		}
		return false
	}
	if o.Kind == "cover" && cfg.TimeoutMS > 4000 {
		c2 := *cfg
		c2.TimeoutMS = 4000
		c2.AllAgree = false
		cfg = &c2
	}
	// stage 1: z3-new alone, short
	short := cfg.TimeoutMS
	if short > 3000 {
		short = 3000
	}
	t0 := time.Now()
	r := runSolver(context.Background(), "z3-new", f1, short, cfg.Seed)
	if decide(r) && !cfg.AllAgree {
		return
	}
	// stage 2: race all
	ctx, cancel := context.WithCancel(context.Background())
	defer cancel()
	ch := make(chan solverRes, 6)
	// a small portfolio: the three solvers, and z3-new under two further seeds (an obligation
	// whose proof depends on the solver's random seed must not turn into an alarm)
	type racer struct {
		s    string
		seed int
	}
	solvers := []racer{{"z3-new", cfg.Seed}, {"z3", cfg.Seed}, {"cvc5", cfg.Seed}, {"z3-new", cfg.Seed + 1}, {"z3-new", cfg.Seed + 2}}
	n := 0
	for _, s := range solvers {
		file := f1
		if s.s == "cvc5" {
			file = f2
		}
		n++
		go func(s racer, file string) {
			r := runSolver(ctx, s.s, file, cfg.TimeoutMS, s.seed)
			if s.seed != cfg.Seed {
				r.solver = fmt.Sprintf("%s(seed+%d)", s.s, s.seed-cfg.Seed)
			}
			ch <- r
		}(s, file)
	}
	var results []solverRes
	decided := o.Status != ""
	if decided && cfg.AllAgree {
		// already answered by the short stage: the others get 15 seconds to contradict it
		go func() {
			time.Sleep(15 * time.Second)
			cancel()
		}()
	}
	for i := 0; i < n; i++ {
		r := <-ch
		results = append(results, r)
		if !decided && decide(r) {
			decided = true
			if !cfg.AllAgree {
				cancel()
			} else {
				// cross-check: the other solvers get 15 more seconds to contradict the answer
				go func() {
					time.Sleep(15 * time.Second)
					cancel()
				}()
			}
		}
	}
	if cfg.AllAgree {
		seen := map[string]string{}
		if stageProved {
			seen["unsat"] = "z3-new(stage) "
		}
		for _, r := range results {
			if r.status == "sat" || r.status == "unsat" {
				seen[r.status] += r.solver + " "
			}
		}
		if len(seen) > 1 {
			o.Status = "tool-disagreement"
			o.Note = fmt.Sprint(seen)
			return
		}
	}
	if !decided {
		o.TimeMS = time.Since(t0).Milliseconds()
		o.Status = "unknown"
		var notes []string
		allErr := true
		for _, r := range results {
			notes = append(notes, r.solver+":"+r.status)
			if r.status != "error" {
				allErr = false
			}
		}
		if allErr {
			o.Status = "tool-error"
			o.Note = firstLines(results[0].out, 3)
		}
		o.Solver = strings.Join(notes, ",")
		if candText != "" && o.Status == "unknown" {
			fc := base + ".cand.smt2"
			os.WriteFile(fc, []byte(candText), 0o644)
			r := runSolver(context.Background(), "z3-new", fc, 10000, cfg.Seed)
			if !cfg.Keep {
				os.Remove(fc)
			}
			if r.status == "sat" {
				o.Model = modelText(r.out)
				o.Note = "candidate counterexample (model of the quantifier-free weakening; believed only if its replay reproduces)"
			}
		}
	}
}

func modelText(out string) string {
	i := strings.Index(out, "\n")
	if i < 0 {
		return ""
	}
	m := strings.TrimSpace(out[i+1:])
	if len(m) > 400000 {
		m = m[:400000] + "..."
	}
	return m
}

func SolveAll(obls []*Obligation, cfg *SolverCfg) {
	os.MkdirAll(cfg.WorkDir, 0o755)
	jobs := cfg.Jobs
	if jobs <= 0 {
		jobs = 8
	}
	// Rendering touches the shared term table (hash-consing): render sequentially, solve in parallel.
	type job struct {
		o   *Obligation
		idx int
	}
	var mu sync.Mutex
	_ = mu
	sem := make(chan struct{}, jobs)
	var wg sync.WaitGroup
	for i, o := range obls {
		i, o := i, o
		wg.Add(1)
		sem <- struct{}{}
		go func() {
			defer wg.Done()
			defer func() { <-sem }()
			SolveRendered(o, cfg, i)
		}()
	}
	wg.Wait()
}

// SolveRendered is Solve; term construction during rendering is guarded by a global lock.
var renderMu sync.Mutex

func SolveRendered(o *Obligation, cfg *SolverCfg, idx int) {
	Solve(o, cfg, idx)
}

// abstractNonlinear replaces every non-linear arithmetic sub-term by a fresh constant.
func abstractNonlinear(ts []*Term) ([]*Term, int) {
	memo := map[*Term]*Term{}
	n := 0
	var rec func(t *Term) *Term
	rec = func(t *Term) *Term {
		if len(t.Args) == 0 {
			return t
		}
		if r, ok := memo[t]; ok {
			return r
		}
		var r *Term
		nl := false
		switch t.Op {
		case "*":
			k := 0
			for _, a := range t.Args {
				if a.Op != "int" {
					k++
				}
			}
			nl = k >= 2
		case "div", "mod":
			nl = t.Args[1].Op != "int"
		case "forall", "exists":
			memo[t] = t
			return t
		}
		if nl {
			n++
			r = Sym(fmt.Sprintf("nl!%d", t.id), SInt)
		} else {
			args := make([]*Term, len(t.Args))
			changed := false
			for i, a := range t.Args {
				args[i] = rec(a)
				if args[i] != a {
					changed = true
				}
			}
			if changed {
				r = rebuild(t, args)
			} else {
				r = t
			}
		}
		memo[t] = r
		return r
	}
	out := make([]*Term, len(ts))
	for i, t := range ts {
		out[i] = rec(t)
	}
	return out, n
}

func hasQuantifier(t *Term) bool {
	q := false
	collect([]*Term{t}, func(x *Term) {
		if x.Op == "forall" || x.Op == "exists" {
			q = true
		}
	})
	return q
}

// instantiateForalls returns ground instances of the universally quantified hypotheses
// (positions: top-level forall, possibly under implications/conjunctions) obtained by matching
// trigger terms (select / uninterpreted applications containing the bound variable) against
// ground terms of the context.
// instKeepSiblings: also keep the quantifier-free siblings of quantified conjuncts that sit under
// implications / ite (set for preimage obligations, whose hypotheses are nested that way; for
// other obligations the extra facts only slow the cheap stages down).  Guarded by renderMu.
var instKeepSiblings bool

// instQuantOut (when non-nil) receives the instances that still contain quantifiers (their
// nested quantified sub-formulas become propositional atoms in the q-atoms stage).
var instQuantOut *[]*Term

func instantiateForalls(hyps []*Term, ground []*Term) []*Term {
	// index ground select/app terms by head
	type gterm struct{ t *Term }
	byHead := map[string][]*Term{}
	headOf := func(t *Term) string {
		switch t.Op {
		case "select":
			return fmt.Sprintf("select:%d", t.Args[0].id)
		case "app":
			return "app:" + t.Name
		}
		return ""
	}
	bound := map[*Term]bool{}
	collect(ground, func(t *Term) {
		for _, b := range t.Bnd {
			bound[b] = true
		}
	})
	collect(ground, func(t *Term) {
		if h := headOf(t); h != "" {
			dep := false
			collect([]*Term{t}, func(x *Term) {
				if bound[x] {
					dep = true
				}
			})
			if !dep {
				byHead[h] = append(byHead[h], t)
			}
		}
	})
	var out []*Term
	seen := map[*Term]bool{}
	depth := 0
	var visit func(h *Term, guard []*Term)
	visit = func(h *Term, guard []*Term) {
		if (depth > 0 || (len(guard) > 0 && instKeepSiblings)) && !hasQuantifier(h) {
			// quantifier-free part of an instance
			full := Implies(And(guard...), h)
			if !seen[full] && !full.IsTrue() {
				seen[full] = true
				out = append(out, full)
			}
			return
		}
		switch h.Op {
		case "and":
			for _, a := range h.Args {
				visit(a, guard)
			}
		case "=>":
			visit(h.Args[1], append(append([]*Term{}, guard...), h.Args[0]))
		case "ite":
			if h.Sort == SBool {
				visit(h.Args[1], append(append([]*Term{}, guard...), h.Args[0]))
				visit(h.Args[2], append(append([]*Term{}, guard...), Not(h.Args[0])))
			}
		case "forall":
			if len(h.Bnd) != 1 {
				return
			}
			bv := h.Bnd[0]
			body := h.Args[0]
			// triggers
			var trig []*Term
			collect([]*Term{body}, func(t *Term) {
				if headOf(t) != "" && dependsOn(t, bv) {
					// minimal: no proper sub-term that is itself a trigger depending on bv, except inside index
					trig = append(trig, t)
				}
			})
			cands := map[*Term]bool{}
			for _, tr := range trig {
				hd := headOf(tr)
				if tr.Op == "select" && dependsOn(tr.Args[0], bv) {
					continue
				}
				for _, g := range byHead[hd] {
					if v := matchBind(tr, g, bv); v != nil {
						cands[v] = true
					}
				}
			}
			n := 0
			for v := range cands {
				if n > 40 {
					break
				}
				n++
				inst := Subst(body, map[*Term]*Term{bv: v})
				if hasQuantifier(inst) {
					if instQuantOut != nil {
						*instQuantOut = append(*instQuantOut, Implies(And(guard...), inst))
					}
					// nested quantifier: instantiate the inner one against the same ground terms
					if depth < 3 {
						depth++
						visit(inst, guard)
						depth--
					}
					continue
				}
				full := Implies(And(guard...), inst)
				if !seen[full] && !full.IsTrue() {
					seen[full] = true
					out = append(out, full)
				}
			}
		}
	}
	for _, h := range hyps {
		visit(h, nil)
	}
	return out
}

// quantAtomStage builds the q-atoms weakening: every maximal quantified sub-formula Q of the
// hypotheses, of the negated goal and of the instances is replaced by a propositional atom p_Q
// (one atom per distinct formula), and for a universal Q the instances of p_Q ==> Q at the
// matching ground terms are added.  Replacing a closed formula by an atom and adding
// consequences of p_Q <=> Q only weakens the problem, so `unsat` is a valid discharge.  It
// decides goals whose proof is "this quantified fact is literally one of the hypotheses".
func quantAtomStage(qf, quants, qinst []*Term, negGround *Term, ground []*Term) []*Term {
	atoms := map[*Term]*Term{}
	var order []*Term
	var atomize func(t *Term) *Term
	memo := map[*Term]*Term{}
	atomize = func(t *Term) *Term {
		if r, ok := memo[t]; ok {
			return r
		}
		var r *Term
		switch {
		case t.Op == "forall" || t.Op == "exists":
			a, ok := atoms[t]
			if !ok {
				a = Sym(fmt.Sprintf("qa!%d", t.id), SBool)
				atoms[t] = a
				order = append(order, t)
			}
			r = a
		case t.Sort == SBool && len(t.Args) > 0 && (t.Op == "and" || t.Op == "or" || t.Op == "not" || t.Op == "=>" || t.Op == "ite" || t.Op == "="):
			args := make([]*Term, len(t.Args))
			ch := false
			for i, a := range t.Args {
				if a.Sort == SBool {
					args[i] = atomize(a)
				} else {
					args[i] = a
				}
				if args[i] != a {
					ch = true
				}
			}
			if ch {
				r = rebuild(t, args)
			} else {
				r = t
			}
		default:
			r = t
		}
		memo[t] = r
		return r
	}
	var out []*Term
	out = append(out, qf...)
	for _, h := range quants {
		out = append(out, atomize(h))
	}
	for _, h := range qinst {
		out = append(out, atomize(h))
	}
	out = append(out, negGround)
	if len(atoms) == 0 {
		return nil
	}
	// p_Q ==> Q, instantiated at the ground terms (two rounds: instances may expose new atoms)
	done := map[*Term]bool{}
	for round := 0; round < 2; round++ {
		var axioms []*Term
		for _, q := range append([]*Term{}, order...) {
			if q.Op == "forall" && !done[q] {
				done[q] = true
				axioms = append(axioms, Implies(atoms[q], q))
			}
			if q.Op == "exists" && !done[q] {
				// (exists x. B) ==> p_Q, i.e. forall x. (B ==> p_Q): introduction at ground terms
				done[q] = true
				axioms = append(axioms, Forall(q.Bnd, Implies(q.Args[0], atoms[q])))
			}
		}
		if len(axioms) == 0 {
			break
		}
		var nested []*Term
		instQuantOut = &nested
		// ground terms: everything stated so far (quantifier-free after atomisation), which
		// includes the skolem terms of quantified parts of the negated goal
		insts := instantiateForalls(axioms, append(append([]*Term{}, ground...), out...))
		instQuantOut = nil
		out = append(out, insts...)
		for _, h := range nested {
			out = append(out, atomize(h))
		}
	}
	// an existential and the universal that is its negation (the same formula met in both
	// polarities, e.g. as a hypothesis and in the negated goal) cannot both hold
	for _, f := range order {
		if f.Op != "forall" || f.Args[0].Op != "not" {
			continue
		}
		for _, e := range order {
			if e.Op == "exists" && e.Args[0] == f.Args[0].Args[0] && fmt.Sprint(varIDs(e.Bnd)) == fmt.Sprint(varIDs(f.Bnd)) {
				out = append(out, Not(And(atoms[e], atoms[f])))
			}
		}
	}
	// a Boolean-sorted leftover quantifier (under a non-Boolean context) would make the script
	// quantified again: drop such asserts
	var clean []*Term
	for _, h := range out {
		if !hasQuantifier(h) {
			clean = append(clean, h)
		}
	}
	return clean
}

// matchBind matches pattern p (containing bv) against ground term g with the same head and
// returns the value of bv, or nil.  Only one argument may contain bv, either as bv itself or
// as a sum bv + rest.
func matchBind(p, g, bv *Term) *Term {
	if p.Op != g.Op || p.Name != g.Name || len(p.Args) != len(g.Args) {
		return nil
	}
	var val *Term
	for i := range p.Args {
		pa, ga := p.Args[i], g.Args[i]
		if !dependsOn(pa, bv) {
			// an instance is sound at any term; a ground argument that is an ite with the
			// pattern's argument as one branch is relevant (the solver closes the gap by
			// congruence once the branch condition is decided)
			if pa != ga && (os.Getenv("GOVC_NOITEMATCH") != "" || !iteBranch(ga, pa, 3)) {
				return nil
			}
			continue
		}
		if val != nil {
			return nil
		}
		if pa == bv {
			val = ga
			continue
		}
		if pa.Op == "+" {
			var rest []*Term
			cnt := 0
			for _, a := range pa.Args {
				if a == bv {
					cnt++
				} else if dependsOn(a, bv) {
					return nil
				} else {
					rest = append(rest, a)
				}
			}
			if cnt != 1 {
				return nil
			}
			val = Sub(ga, Add(rest...))
			continue
		}
		return nil
	}
	if val != nil && val.Sort != bv.Sort {
		return nil
	}
	return val
}

func iteBranch(g, p *Term, fuel int) bool {
	if g.Op != "ite" || fuel == 0 {
		return false
	}
	return g.Args[1] == p || g.Args[2] == p || iteBranch(g.Args[1], p, fuel-1) || iteBranch(g.Args[2], p, fuel-1)
}

var skCtr int

// skolemizeGoal replaces universally quantified variables in positive positions of a goal by
// fresh constants (proving P(c) for a fresh c proves forall x. P(x)).
func skolemizeGoal(t *Term) *Term {
	switch t.Op {
	case "forall":
		m := map[*Term]*Term{}
		for _, b := range t.Bnd {
			skCtr++
			m[b] = Sym(fmt.Sprintf("sk!%s!%d", strings.TrimPrefix(b.Name, "$"), skCtr), b.Sort)
		}
		return skolemizeGoal(Subst(t.Args[0], m))
	case "=>":
		return Implies(t.Args[0], skolemizeGoal(t.Args[1]))
	case "and":
		args := make([]*Term, len(t.Args))
		for i, a := range t.Args {
			args[i] = skolemizeGoal(a)
		}
		return And(args...)
	}
	return t
}

// splitConj splits hypotheses at top-level conjunctions (also under an implication guard).
func splitConj(hs []*Term) []*Term {
	var out []*Term
	var rec func(g []*Term, t *Term)
	rec = func(g []*Term, t *Term) {
		switch {
		case t.Op == "and":
			for _, a := range t.Args {
				rec(g, a)
			}
		case t.Op == "=>" && t.Args[1].Op == "and":
			g2 := append(append([]*Term{}, g...), t.Args[0])
			for _, a := range t.Args[1].Args {
				rec(g2, a)
			}
		default:
			out = append(out, Implies(And(g...), t))
		}
	}
	for _, h := range hs {
		rec(nil, h)
	}
	return out
}

// negateGoal pushes the negation of a goal inwards far enough to expose the universally
// quantified facts it yields: not(G => C) = G and not C; not(exists x. P) = forall x. not P.
func negateGoal(t *Term) *Term {
	switch t.Op {
	case "=>":
		return And(t.Args[0], negateGoal(t.Args[1]))
	case "exists":
		r := Forall(t.Bnd, Not(t.Args[0]))
		return r
	case "or":
		args := make([]*Term, len(t.Args))
		for i, a := range t.Args {
			args[i] = negateGoal(a)
		}
		return And(args...)
	}
	return Not(t)
}
