package main

// Mapping from Go types to SMT sorts (INT mode) and helpers for typed values.

import (
	"fmt"
	"go/types"
	"math/big"
	"sort"
	"strings"
)

type TypeMap struct {
	sorts  map[string]*Sort // keyed by canonical type string
	byType map[types.Type]*Sort
}

var tm = &TypeMap{sorts: map[string]*Sort{}, byType: map[types.Type]*Sort{}}

func typeKey(t types.Type) string {
	return types.TypeString(t, func(p *types.Package) string {
		path := p.Path()
		path = strings.TrimPrefix(path, "go.sia.tech/core/")
		return path
	})
}

// errSort: errors are Ints; 0 is nil.
var (
	SErr   = SInt
	SStr   = &Sort{Kind: KUnint, Name: "Str"}
	SIface = &Sort{Kind: KUnint, Name: "Iface"}
)

func isErrorType(t types.Type) bool {
	return types.Identical(t, types.Universe.Lookup("error").Type())
}

func SortOf(t types.Type) *Sort {
	if s, ok := tm.byType[t]; ok {
		return s
	}
	s := sortOf1(t)
	tm.byType[t] = s
	return s
}

func sortOf1(t types.Type) *Sort {
	if isErrorType(t) {
		return SErr
	}
	switch u := t.Underlying().(type) {
	case *types.Basic:
		switch {
		case u.Info()&types.IsBoolean != 0:
			return SBool
		case u.Info()&types.IsInteger != 0:
			return SInt
		case u.Info()&types.IsString != 0:
			return SliceSort(types.Typ[types.Byte])
		case u.Kind() == types.UnsafePointer:
			return SInt
		case u.Info()&types.IsFloat != 0:
			return &Sort{Kind: KUnint, Name: "Float"}
		case u.Kind() == types.UntypedNil:
			return SInt
		}
	case *types.Struct:
		key := typeKey(t)
		if s, ok := tm.sorts[key]; ok {
			return s
		}
		s := &Sort{Kind: KDT, Name: key}
		tm.sorts[key] = s
		c := &Ctor{Name: "mk:" + key, Sort: s}
		for i := 0; i < u.NumFields(); i++ {
			f := u.Field(i)
			c.Fields = append(c.Fields, CField{Name: key + "." + f.Name(), Sort: SortOf(f.Type())})
		}
		if u.NumFields() == 0 {
			c.Fields = nil
		}
		s.Ctors = []*Ctor{c}
		return s
	case *types.Array:
		return ArraySort(SInt, SortOf(u.Elem()))
	case *types.Slice:
		return SliceSort(u.Elem())
	case *types.Pointer:
		return PtrSort(u.Elem())
	case *types.Map:
		return MapSort(u.Key(), u.Elem())
	case *types.Interface:
		if u := unionSort(t); u != nil {
			return u
		}
		return SIface
	case *types.Signature:
		return &Sort{Kind: KUnint, Name: "Func"}
	case *types.Chan:
		return &Sort{Kind: KUnint, Name: "Chan"}
	case *types.Tuple:
		panic("SortOf tuple")
	}
	panic(fmt.Sprintf("SortOf: unsupported type %s (%T)", t, t.Underlying()))
}

// Slice sort: mk(len, off, arr); element i is arr[off+i].
func SliceSort(elem types.Type) *Sort {
	es := SortOf(elem)
	key := "Slice<" + es.Name + ">"
	if s, ok := tm.sorts[key]; ok {
		return s
	}
	s := &Sort{Kind: KDT, Name: key}
	tm.sorts[key] = s
	s.Ctors = []*Ctor{{Name: "mk:" + key, Sort: s, Fields: []CField{
		{key + ".len", SInt}, {key + ".off", SInt}, {key + ".arr", ArraySort(SInt, es)}, {key + ".nil", SBool},
	}}}
	return s
}

func SliceLen(s *Term) *Term {
	t := SelField(s.Sort.Ctors[0], 0, s)
	return WithRange(t, big.NewInt(0), maxLen)
}
func SliceOff(s *Term) *Term {
	t := SelField(s.Sort.Ctors[0], 1, s)
	return WithRange(t, big.NewInt(0), maxLen)
}
func SliceArr(s *Term) *Term { return SelField(s.Sort.Ctors[0], 2, s) }
func MkSlice(sort *Sort, ln, off, arr *Term) *Term {
	return MkCtor(sort.Ctors[0], ln, off, arr, TFalse)
}

// SliceIsNil: the nil flag of a slice value (a nil slice has length 0; an empty slice need not be nil).
func SliceIsNil(s *Term) *Term { return SelField(s.Sort.Ctors[0], 3, s) }

func isSliceSort(s *Sort) bool { return s.Kind == KDT && strings.HasPrefix(s.Name, "Slice<") }
func SliceAt(s, i *Term) *Term { return Select(SliceArr(s), Add(SliceOff(s), i)) }

// maxLen: upper bound assumed on every slice length / offset (T10: < 2^40 elements).
var maxLen = Pow2(40)

// Ptr sort: nil | ref(val).  Pointers loaded from data are modelled by the
// value they point to (immutable pointee).
func PtrSort(elem types.Type) *Sort {
	key := "Ptr<" + typeKey(elem) + ">"
	if s, ok := tm.sorts[key]; ok {
		return s
	}
	s := &Sort{Kind: KDT, Name: key}
	tm.sorts[key] = s
	var es *Sort
	if st, ok := elem.Underlying().(*types.Struct); ok && recursiveVia(st, elem) {
		es = SInt // recursive pointer: opaque handle
	} else {
		es = SortOf(elem)
	}
	s.Ctors = []*Ctor{
		{Name: "nil:" + key, Sort: s},
		{Name: "ref:" + key, Sort: s, Fields: []CField{{key + ".val", es}}},
	}
	return s
}

func recursiveVia(st *types.Struct, target types.Type) bool { return false }

func PtrNil(s *Sort) *Term      { return MkCtor(s.Ctors[0]) }
func PtrRef(s *Sort, v *Term) *Term { return MkCtor(s.Ctors[1], v) }
func PtrIsNil(p *Term) *Term    { return IsCtor(p.Sort.Ctors[0], p) }
func PtrVal(p *Term) *Term      { return SelField(p.Sort.Ctors[1], 0, p) }

// Map sort: mk(has: K->Bool, val: K->V, len)
func MapSort(k, v types.Type) *Sort {
	ks, vs := SortOf(k), SortOf(v)
	key := "Map<" + ks.Name + "," + vs.Name + ">"
	if s, ok := tm.sorts[key]; ok {
		return s
	}
	s := &Sort{Kind: KDT, Name: key}
	tm.sorts[key] = s
	s.Ctors = []*Ctor{{Name: "mk:" + key, Sort: s, Fields: []CField{
		{key + ".has", ArraySort(ks, SBool)}, {key + ".val", ArraySort(ks, vs)}, {key + ".len", SInt}, {key + ".nil", SBool},
	}}}
	return s
}

// ---- closed interfaces as tagged unions ----

type unionCase struct {
	Typ  types.Type // implementing type as stored in the interface (T or *T)
	Elem types.Type // value carried (T)
	Ctor *Ctor
}

var (
	theProgram *Program
	unionCases = map[*Sort][]unionCase{}
)

// unionSort returns the tagged-union sort of a module-defined interface whose implementers
// (named types of the module) form a small closed set, or nil.
func unionSort(t types.Type) *Sort {
	nt, ok := t.(*types.Named)
	if !ok || theProgram == nil || nt.Obj().Pkg() == nil || !strings.HasPrefix(nt.Obj().Pkg().Path(), modPath) {
		return nil
	}
	it, ok := nt.Underlying().(*types.Interface)
	if !ok || it.NumMethods() == 0 {
		return nil
	}
	sealed := false
	for i := 0; i < it.NumMethods(); i++ {
		if !it.Method(i).Exported() {
			sealed = true
		}
	}
	if !sealed {
		return nil
	}
	key := "Iface<" + typeKey(t) + ">"
	if s, ok := tm.sorts[key]; ok {
		return s
	}
	var impls []types.Type
	var paths []string
	for path := range theProgram.ByPath {
		if strings.HasPrefix(path, modPath) {
			paths = append(paths, path)
		}
	}
	sort.Strings(paths)
	for _, path := range paths {
		sc := theProgram.ByPath[path].Types.Scope()
		for _, name := range sc.Names() {
			tn, ok := sc.Lookup(name).(*types.TypeName)
			if !ok || tn.IsAlias() {
				continue
			}
			n, ok := tn.Type().(*types.Named)
			if !ok || n.TypeParams().Len() > 0 {
				continue
			}
			if _, isI := n.Underlying().(*types.Interface); isI {
				continue
			}
			if types.Implements(n, it) {
				impls = append(impls, n)
			} else if types.Implements(types.NewPointer(n), it) {
				impls = append(impls, types.NewPointer(n))
			}
		}
	}
	if len(impls) == 0 || len(impls) > 12 {
		return nil
	}
	s := &Sort{Kind: KDT, Name: key}
	tm.sorts[key] = s
	s.Ctors = []*Ctor{{Name: "nil:" + key, Sort: s}}
	var cases []unionCase
	for _, im := range impls {
		elem := im
		if p, ok := im.(*types.Pointer); ok {
			elem = p.Elem()
		}
		var es *Sort
		func() {
			defer func() {
				if recover() != nil {
					es = nil
				}
			}()
			es = SortOf(elem)
		}()
		if es == nil || es == s {
			delete(tm.sorts, key)
			return nil
		}
		c := &Ctor{Name: "as:" + typeKey(im) + ":" + key, Sort: s, Fields: []CField{{key + "." + typeKey(elem), es}}}
		s.Ctors = append(s.Ctors, c)
		cases = append(cases, unionCase{Typ: im, Elem: elem, Ctor: c})
	}
	unionCases[s] = cases
	return s
}

func unionCaseFor(s *Sort, t types.Type) *unionCase {
	for i := range unionCases[s] {
		if types.Identical(unionCases[s][i].Typ, t) {
			return &unionCases[s][i]
		}
	}
	return nil
}

// intRange returns the value range of a Go integer type.
func intRange(b *types.Basic) (lo, hi *big.Int, ok bool) {
	var w int
	signed := b.Info()&types.IsUnsigned == 0
	switch b.Kind() {
	case types.Int8, types.Uint8:
		w = 8
	case types.Int16, types.Uint16:
		w = 16
	case types.Int32, types.Uint32:
		w = 32
	case types.Int64, types.Uint64, types.Int, types.Uint, types.Uintptr:
		w = 64
	case types.UntypedInt, types.UntypedRune:
		return nil, nil, false
	default:
		return nil, nil, false
	}
	if signed {
		return new(big.Int).Neg(Pow2(w - 1)), new(big.Int).Sub(Pow2(w-1), big.NewInt(1)), true
	}
	return big.NewInt(0), new(big.Int).Sub(Pow2(w), big.NewInt(1)), true
}

func intWidth(b *types.Basic) (w int, signed bool) {
	signed = b.Info()&types.IsUnsigned == 0
	switch b.Kind() {
	case types.Int8, types.Uint8:
		w = 8
	case types.Int16, types.Uint16:
		w = 16
	case types.Int32, types.Uint32:
		w = 32
	default:
		w = 64
	}
	return
}

// Typed attaches the typing range of Go type t to an atom.
func Typed(x *Term, t types.Type) *Term {
	if x.Sort != SInt {
		return x
	}
	if b, ok := t.Underlying().(*types.Basic); ok && b.Info()&types.IsInteger != 0 {
		if lo, hi, ok := intRange(b); ok {
			return WithRange(x, lo, hi)
		}
	}
	return x
}

// ZeroOf returns the zero value of a Go type as a term.
func ZeroOf(t types.Type) *Term {
	s := SortOf(t)
	return zeroOfSort(s, t)
}

func zeroOfSort(s *Sort, t types.Type) *Term {
	switch s.Kind {
	case KInt:
		return IntC(0)
	case KBool:
		return TFalse
	case KArray:
		var et types.Type
		if t != nil {
			if a, ok := t.Underlying().(*types.Array); ok {
				et = a.Elem()
			}
		}
		return ConstArray(s, zeroOfSort(s.Elem, et))
	case KDT:
		if strings.HasPrefix(s.Name, "Ptr<") || strings.HasPrefix(s.Name, "Iface<") {
			return MkCtor(s.Ctors[0])
		}
		if strings.HasPrefix(s.Name, "Slice<") {
			c := s.Ctors[0]
			return MkCtor(c, IntC(0), IntC(0), ConstArray(c.Fields[2].Sort, zeroOfSort(c.Fields[2].Sort.Elem, nil)), TTrue)
		}
		if strings.HasPrefix(s.Name, "Map<") {
			c := s.Ctors[0]
			return MkCtor(c, ConstArray(c.Fields[0].Sort, TFalse), ConstArray(c.Fields[1].Sort, zeroOfSort(c.Fields[1].Sort.Elem, nil)), IntC(0), TTrue)
		}
		c := s.Ctors[0]
		args := make([]*Term, len(c.Fields))
		var st *types.Struct
		if t != nil {
			st, _ = t.Underlying().(*types.Struct)
		}
		for i, f := range c.Fields {
			var ft types.Type
			if st != nil {
				ft = st.Field(i).Type()
			}
			args[i] = zeroOfSort(f.Sort, ft)
		}
		return MkCtor(c, args...)
	case KUnint:
		return Sym("zero:"+s.Name, s)
	}
	panic("zeroOfSort " + s.Name)
}

// structCtor returns the constructor for a struct-typed Go type.
func structCtor(t types.Type) *Ctor { return SortOf(t).Ctors[0] }

// fieldIndexByName finds a (possibly embedded-promoted) field path by name.
func fieldPathByName(t types.Type, name string) ([]int, types.Type, bool) {
	if p, ok := t.Underlying().(*types.Pointer); ok {
		t = p.Elem()
	}
	st, ok := t.Underlying().(*types.Struct)
	if !ok {
		return nil, nil, false
	}
	for i := 0; i < st.NumFields(); i++ {
		if st.Field(i).Name() == name {
			return []int{i}, st.Field(i).Type(), true
		}
	}
	for i := 0; i < st.NumFields(); i++ {
		f := st.Field(i)
		if f.Embedded() {
			if p, ft, ok := fieldPathByName(f.Type(), name); ok {
				return append([]int{i}, p...), ft, true
			}
		}
	}
	return nil, nil, false
}
