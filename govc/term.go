package main

// Term DAG with hash-consing and light simplification, printed as SMT-LIB2.

import (
	"os"
	"fmt"
	"math/big"
	"sort"
	"strings"
)

type SortKind int

const (
	KInt SortKind = iota
	KBool
	KArray
	KDT     // algebraic datatype (struct / slice / ptr / option)
	KUnint  // uninterpreted sort
	KBV     // bit-vector
)

type Sort struct {
	Kind  SortKind
	Name  string // printed name for DT / Unint
	Idx   *Sort  // array index
	Elem  *Sort  // array elem
	Width int    // BV
	// DT: constructors
	Ctors []*Ctor
}

type Ctor struct {
	Name   string
	Fields []CField
	Sort   *Sort
}

type CField struct {
	Name string // selector name (globally unique)
	Sort *Sort
}

var (
	SInt  = &Sort{Kind: KInt, Name: "Int"}
	SBool = &Sort{Kind: KBool, Name: "Bool"}
)

var arraySorts = map[[2]*Sort]*Sort{}

func ArraySort(idx, elem *Sort) *Sort {
	k := [2]*Sort{idx, elem}
	if s, ok := arraySorts[k]; ok {
		return s
	}
	s := &Sort{Kind: KArray, Idx: idx, Elem: elem}
	s.Name = "(Array " + idx.String() + " " + elem.String() + ")"
	arraySorts[k] = s
	return s
}

var bvSorts = map[int]*Sort{}

func BVSort(w int) *Sort {
	if s, ok := bvSorts[w]; ok {
		return s
	}
	s := &Sort{Kind: KBV, Width: w, Name: fmt.Sprintf("(_ BitVec %d)", w)}
	bvSorts[w] = s
	return s
}

func (s *Sort) String() string { return s.Name }

var symRepl = strings.NewReplacer(":", "!", ",", "&", "[", "%", "]", "%", " ", "_", "(", "<", ")", ">", "{", "$", "}", "$", "|", "!", "\\", "/", "#", "!", "@", "~", ";", "!")

// quoteSym renders a name as an SMT-LIB simple symbol (cvc5 1.0 mis-parses
// quoted symbols inside (_ is ...)).
func quoteSym(s string) string {
	s = symRepl.Replace(s)
	simple := s != ""
	for _, c := range s {
		if !(c >= 'a' && c <= 'z' || c >= 'A' && c <= 'Z' || c >= '0' && c <= '9' || strings.ContainsRune("~!$%^&*_-+=<>.?/", c)) {
			simple = false
			break
		}
	}
	if simple && !(s[0] >= '0' && s[0] <= '9') {
		return s
	}
	return "|" + s + "|"
}

// Range is an inclusive typing range attached to integer atoms.
type Range struct{ Lo, Hi *big.Int }

type Term struct {
	Op   string
	Args []*Term
	Sort *Sort
	Name string   // sym / app / ctor / sel / is
	Int  *big.Int // for Op == "int" or "bv"
	Rng  *Range   // typing fact for atoms
	Bnd  []*Term  // bound variables (forall / exists)
	id   int
	key  string
}

var (
	termTab  = map[string]*Term{}
	termNext = 1
)

func mk(op, name string, sort *Sort, iv *big.Int, args ...*Term) *Term {
	var sb strings.Builder
	sb.WriteString(op)
	sb.WriteByte(0)
	sb.WriteString(name)
	sb.WriteByte(0)
	sb.WriteString(sort.Name)
	if iv != nil {
		sb.WriteByte(0)
		sb.WriteString(iv.String())
	}
	for _, a := range args {
		fmt.Fprintf(&sb, ",%d", a.id)
	}
	k := sb.String()
	if t, ok := termTab[k]; ok {
		return t
	}
	t := &Term{Op: op, Name: name, Sort: sort, Int: iv, Args: args, id: termNext, key: k}
	termNext++
	termTab[k] = t
	return t
}

var (
	TTrue  = mk("true", "", SBool, nil)
	TFalse = mk("false", "", SBool, nil)
)

func Sym(name string, s *Sort) *Term { return mk("sym", name, s, nil) }

var freshCtr = map[string]int{}

func Fresh(prefix string, s *Sort) *Term {
	freshCtr[prefix]++
	return Sym(fmt.Sprintf("%s!%d", prefix, freshCtr[prefix]), s)
}

func IntC(v int64) *Term       { return mk("int", "", SInt, big.NewInt(v)) }
func IntB(v *big.Int) *Term    { return mk("int", "", SInt, new(big.Int).Set(v)) }
func BoolC(b bool) *Term {
	if b {
		return TTrue
	}
	return TFalse
}

func Pow2(k int) *big.Int { return new(big.Int).Lsh(big.NewInt(1), uint(k)) }

func (t *Term) IsConstInt() bool  { return t.Op == "int" }
func (t *Term) IsTrue() bool      { return t == TTrue }
func (t *Term) IsFalse() bool     { return t == TFalse }

func WithRange(t *Term, lo, hi *big.Int) *Term {
	if t.Rng == nil && t.Op != "int" {
		t.Rng = &Range{lo, hi}
	}
	return t
}

// ---- integer arithmetic ----

// linear normal form: a sum is kept as base terms with integer coefficients (equal bases are
// merged, zero coefficients dropped) followed by the constant.
type linTerm struct {
	base  *Term
	coeff *big.Int
}

func linDecompose(x *Term, k *big.Int, acc map[int]*linTerm, order *[]int, c *big.Int) {
	switch {
	case x.Op == "int":
		c.Add(c, new(big.Int).Mul(k, x.Int))
	case x.Op == "+":
		for _, a := range x.Args {
			linDecompose(a, k, acc, order, c)
		}
	case x.Op == "-" && len(x.Args) == 1:
		linDecompose(x.Args[0], new(big.Int).Neg(k), acc, order, c)
	case x.Op == "-" && len(x.Args) == 2:
		linDecompose(x.Args[0], k, acc, order, c)
		linDecompose(x.Args[1], new(big.Int).Neg(k), acc, order, c)
	case x.Op == "*" && len(x.Args) == 2 && x.Args[0].Op == "int":
		linDecompose(x.Args[1], new(big.Int).Mul(k, x.Args[0].Int), acc, order, c)
	default:
		if lt, ok := acc[x.id]; ok {
			lt.coeff.Add(lt.coeff, k)
		} else {
			acc[x.id] = &linTerm{x, new(big.Int).Set(k)}
			*order = append(*order, x.id)
		}
	}
}

func linBuild(acc map[int]*linTerm, order []int, c *big.Int) *Term {
	var flat []*Term
	for _, id := range order {
		lt := acc[id]
		if lt.coeff.Sign() == 0 {
			continue
		}
		if lt.coeff.Cmp(big.NewInt(1)) == 0 {
			flat = append(flat, lt.base)
		} else {
			flat = append(flat, mk("*", "", SInt, nil, IntB(lt.coeff), lt.base))
		}
	}
	if c.Sign() != 0 {
		flat = append(flat, IntB(c))
	}
	if len(flat) == 0 {
		return IntC(0)
	}
	if len(flat) == 1 {
		return flat[0]
	}
	return mk("+", "", SInt, nil, flat...)
}

func Add(xs ...*Term) *Term {
	acc := map[int]*linTerm{}
	var order []int
	c := new(big.Int)
	one := big.NewInt(1)
	for _, x := range xs {
		linDecompose(x, one, acc, &order, c)
	}
	return linBuild(acc, order, c)
}

func Neg(x *Term) *Term {
	acc := map[int]*linTerm{}
	var order []int
	c := new(big.Int)
	linDecompose(x, big.NewInt(-1), acc, &order, c)
	return linBuild(acc, order, c)
}

func Sub(x, y *Term) *Term {
	acc := map[int]*linTerm{}
	var order []int
	c := new(big.Int)
	linDecompose(x, big.NewInt(1), acc, &order, c)
	linDecompose(y, big.NewInt(-1), acc, &order, c)
	return linBuild(acc, order, c)
}

func Mul(xs ...*Term) *Term {
	var flat []*Term
	c := big.NewInt(1)
	for _, x := range xs {
		if x.Op == "int" {
			c.Mul(c, x.Int)
		} else if x.Op == "*" {
			for _, a := range x.Args {
				if a.Op == "int" {
					c.Mul(c, a.Int)
				} else {
					flat = append(flat, a)
				}
			}
		} else {
			flat = append(flat, x)
		}
	}
	if c.Sign() == 0 {
		return IntC(0)
	}
	if len(flat) == 0 {
		return IntB(c)
	}
	if len(flat) == 1 && c.Cmp(big.NewInt(1)) != 0 && (flat[0].Op == "+" || flat[0].Op == "-") {
		// constant * sum: distribute into the linear normal form
		acc := map[int]*linTerm{}
		var order []int
		k := new(big.Int)
		linDecompose(flat[0], c, acc, &order, k)
		return linBuild(acc, order, k)
	}
	if c.Cmp(big.NewInt(1)) != 0 {
		flat = append([]*Term{IntB(c)}, flat...)
	}
	if len(flat) == 1 {
		return flat[0]
	}
	return mk("*", "", SInt, nil, flat...)
}

// Div is SMT-LIB integer division (floor for positive divisor).
func Div(x, y *Term) *Term {
	if x.Op == "int" && y.Op == "int" && y.Int.Sign() != 0 {
		q, m := new(big.Int), new(big.Int)
		q.DivMod(x.Int, y.Int, m) // Euclidean, as SMT-LIB
		return IntB(q)
	}
	if y.Op == "int" && y.Int.Cmp(big.NewInt(1)) == 0 {
		return x
	}
	return mk("div", "", SInt, nil, x, y)
}

func Mod(x, y *Term) *Term {
	if x.Op == "int" && y.Op == "int" && y.Int.Sign() != 0 {
		q, m := new(big.Int), new(big.Int)
		q.DivMod(x.Int, y.Int, m)
		return IntB(m)
	}
	if y.Op == "int" && y.Int.Sign() > 0 && x.Rng != nil && x.Rng.Lo.Sign() >= 0 && x.Rng.Hi.Cmp(y.Int) < 0 {
		return x
	}
	return mk("mod", "", SInt, nil, x, y)
}

func cmpConst(op string, a, b *big.Int) bool {
	c := a.Cmp(b)
	switch op {
	case "<":
		return c < 0
	case "<=":
		return c <= 0
	case ">":
		return c > 0
	case ">=":
		return c >= 0
	}
	panic(op)
}

func Cmp(op string, x, y *Term) *Term {
	if x.Op == "int" && y.Op == "int" {
		return BoolC(cmpConst(op, x.Int, y.Int))
	}
	if x == y {
		return BoolC(op == "<=" || op == ">=")
	}
	// interval folding against a constant (the ranges are typing facts asserted for the atoms)
	if (y.Op == "int" || x.Op == "int") && !noFold {
		if rx, ry := rangeOf(x), rangeOf(y); rx != nil && ry != nil {
			switch op {
			case "<":
				if rx.Hi.Cmp(ry.Lo) < 0 {
					return TTrue
				}
				if rx.Lo.Cmp(ry.Hi) >= 0 {
					return TFalse
				}
			case "<=":
				if rx.Hi.Cmp(ry.Lo) <= 0 {
					return TTrue
				}
				if rx.Lo.Cmp(ry.Hi) > 0 {
					return TFalse
				}
			case ">":
				if rx.Lo.Cmp(ry.Hi) > 0 {
					return TTrue
				}
				if rx.Hi.Cmp(ry.Lo) <= 0 {
					return TFalse
				}
			case ">=":
				if rx.Lo.Cmp(ry.Hi) >= 0 {
					return TTrue
				}
				if rx.Hi.Cmp(ry.Lo) < 0 {
					return TFalse
				}
			}
		}
	}
	return mk(op, "", SBool, nil, x, y)
}

// rangeFact states the typing range of t without going through the interval folding of Cmp
// (which would fold the fact away using the very range it states).
func rangeFact(t *Term) *Term {
	return And(mk("<=", "", SBool, nil, IntB(t.Rng.Lo), t), mk("<=", "", SBool, nil, t, IntB(t.Rng.Hi)))
}

var noFold = os.Getenv("GOVC_NOFOLD") != ""

func Lt(x, y *Term) *Term { return Cmp("<", x, y) }
func Le(x, y *Term) *Term { return Cmp("<=", x, y) }
func Gt(x, y *Term) *Term { return Cmp(">", x, y) }
func Ge(x, y *Term) *Term { return Cmp(">=", x, y) }

func Eq(x, y *Term) *Term {
	if x == y {
		return TTrue
	}
	if x.Sort != y.Sort {
		panic(fmt.Sprintf("Eq: sort mismatch %s vs %s (%s = %s)", x.Sort, y.Sort, x, y))
	}
	if x.Op == "int" && y.Op == "int" {
		return BoolC(x.Int.Cmp(y.Int) == 0)
	}
	if x.Op == "bv" && y.Op == "bv" {
		return BoolC(x.Int.Cmp(y.Int) == 0)
	}
	if x.Sort == SBool {
		if x.IsTrue() {
			return y
		}
		if y.IsTrue() {
			return x
		}
		if x.IsFalse() {
			return Not(y)
		}
		if y.IsFalse() {
			return Not(x)
		}
	}
	if x.Op == "ite" && y.Op == "int" && x.Args[1].Op == "int" && x.Args[2].Op == "int" {
		return Ite(x.Args[0], BoolC(x.Args[1].Int.Cmp(y.Int) == 0), BoolC(x.Args[2].Int.Cmp(y.Int) == 0))
	}
	if y.Op == "ite" && x.Op == "int" && y.Args[1].Op == "int" && y.Args[2].Op == "int" {
		return Ite(y.Args[0], BoolC(y.Args[1].Int.Cmp(x.Int) == 0), BoolC(y.Args[2].Int.Cmp(x.Int) == 0))
	}
	if x.Op == "ctor" && y.Op == "ctor" {
		if x.Name != y.Name {
			return TFalse
		}
		cs := make([]*Term, len(x.Args))
		for i := range x.Args {
			cs[i] = Eq(x.Args[i], y.Args[i])
		}
		return And(cs...)
	}
	if x.id > y.id {
		x, y = y, x
	}
	return mk("=", "", SBool, nil, x, y)
}

func Ne(x, y *Term) *Term { return Not(Eq(x, y)) }

// ---- boolean ----

func Not(x *Term) *Term {
	switch x.Op {
	case "true":
		return TFalse
	case "false":
		return TTrue
	case "not":
		return x.Args[0]
	case "<":
		return Cmp(">=", x.Args[0], x.Args[1])
	case "<=":
		return Cmp(">", x.Args[0], x.Args[1])
	case ">":
		return Cmp("<=", x.Args[0], x.Args[1])
	case ">=":
		return Cmp("<", x.Args[0], x.Args[1])
	}
	return mk("not", "", SBool, nil, x)
}

func And(xs ...*Term) *Term {
	var flat []*Term
	seen := map[int]bool{}
	for _, x := range xs {
		var parts []*Term
		if x.Op == "and" {
			parts = x.Args
		} else {
			parts = []*Term{x}
		}
		for _, p := range parts {
			if p.IsTrue() {
				continue
			}
			if p.IsFalse() {
				return TFalse
			}
			if !seen[p.id] {
				seen[p.id] = true
				flat = append(flat, p)
			}
		}
	}
	for _, p := range flat {
		if p.Op == "not" && seen[p.Args[0].id] {
			return TFalse
		}
	}
	if len(flat) == 0 {
		return TTrue
	}
	if len(flat) == 1 {
		return flat[0]
	}
	return mk("and", "", SBool, nil, flat...)
}

func Or(xs ...*Term) *Term {
	var flat []*Term
	seen := map[int]bool{}
	for _, x := range xs {
		var parts []*Term
		if x.Op == "or" {
			parts = x.Args
		} else {
			parts = []*Term{x}
		}
		for _, p := range parts {
			if p.IsFalse() {
				continue
			}
			if p.IsTrue() {
				return TTrue
			}
			if !seen[p.id] {
				seen[p.id] = true
				flat = append(flat, p)
			}
		}
	}
	for _, p := range flat {
		if p.Op == "not" && seen[p.Args[0].id] {
			return TTrue
		}
	}
	if len(flat) == 0 {
		return TFalse
	}
	if len(flat) == 1 {
		return flat[0]
	}
	if len(flat) == 2 {
		// (A and c) or (A and not c)  ==  A        (guards re-joining after a diamond)
		if r := mergeComplement(flat[0], flat[1]); r != nil {
			return r
		}
	}
	return mk("or", "", SBool, nil, flat...)
}

func Implies(a, b *Term) *Term {
	if a.IsTrue() {
		return b
	}
	if a.IsFalse() || b.IsTrue() {
		return TTrue
	}
	if b.IsFalse() {
		return Not(a)
	}
	if a == b {
		return TTrue
	}
	return mk("=>", "", SBool, nil, a, b)
}

func Ite(c, a, b *Term) *Term {
	if c.IsTrue() {
		return a
	}
	if c.IsFalse() {
		return b
	}
	if a == b {
		return a
	}
	if a.Sort != b.Sort {
		panic(fmt.Sprintf("Ite: sort mismatch %s vs %s", a.Sort, b.Sort))
	}
	if a.Sort == SBool {
		if a.IsTrue() && b.IsFalse() {
			return c
		}
		if a.IsFalse() && b.IsTrue() {
			return Not(c)
		}
		if a.IsTrue() {
			return Or(c, b)
		}
		if b.IsFalse() {
			return And(c, a)
		}
		if a.IsFalse() {
			return And(Not(c), b)
		}
		if b.IsTrue() {
			return Or(Not(c), a)
		}
	}
	if c.Op == "not" {
		return Ite(c.Args[0], b, a)
	}
	// contextual simplification: inside the then-branch c holds, inside the else-branch it does not
	if a.Op == "ite" || a.Op == "and" || a.Op == "or" || a.Op == "not" {
		if c.Op == "and" {
			for _, cj := range c.Args {
				a = assumeCond(a, cj, true, 16)
			}
		} else {
			a = assumeCond(a, c, true, 16)
		}
	}
	if b.Op == "ite" || b.Op == "and" || b.Op == "or" || b.Op == "not" {
		b = assumeCond(b, c, false, 16)
	}
	if a == b {
		return a
	}
	// ite(c, a, ite(c, _, b)) etc.
	if b.Op == "ite" && b.Args[0] == c {
		return Ite(c, a, b.Args[2])
	}
	if a.Op == "ite" && a.Args[0] == c {
		return Ite(c, a.Args[1], b)
	}
	if a.Sort == SInt && a.Op != "int" {
		if d := Sub(a, b); d.Op == "int" && b.Op != "int" {
			if d.Int.Sign() > 0 {
				return Add(b, mk("ite", "", SInt, nil, c, d, IntC(0)))
			}
			// keep the constant positive: ite(c, a, a + |d|) = a + ite(not c, |d|, 0)
			return Add(a, mk("ite", "", SInt, nil, Not(c), Neg(d), IntC(0)))
		}
	}
	if a.Op == "ctor" && b.Op == "ctor" && a.Name == b.Name {
		args := make([]*Term, len(a.Args))
		for i := range args {
			args[i] = Ite(c, a.Args[i], b.Args[i])
		}
		return mk("ctor", a.Name, a.Sort, nil, args...)
	}
	return mk("ite", "", a.Sort, nil, c, a, b)
}

// ---- arrays ----

func Select(a, i *Term) *Term {
	for a.Op == "store" {
		j := a.Args[1]
		if j == i {
			return a.Args[2]
		}
		if d, ok := constDiff(i, j); ok && d {
			a = a.Args[0]
			continue
		}
		break
	}
	if a.Op == "constarr" {
		return a.Args[0]
	}
	if a.Op == "lam" {
		return Subst(a.Args[0], map[*Term]*Term{a.Bnd[0]: i})
	}
	if a.Op == "ite" {
		k := [2]int{-a.id, i.id}
		if r, ok := selMemo[k]; ok {
			return r
		}
		r := Ite(a.Args[0], Select(a.Args[1], i), Select(a.Args[2], i))
		selMemo[k] = r
		return r
	}
	return mk("select", "", a.Sort.Elem, nil, a, i)
}

// constDiff reports whether i and j are provably different (syntactically).
func constDiff(i, j *Term) (bool, bool) {
	if i.Op == "int" && j.Op == "int" {
		return i.Int.Cmp(j.Int) != 0, true
	}
	// x + c1 vs x + c2
	bi, ci := splitConst(i)
	bj, cj := splitConst(j)
	if bi == bj && ci.Cmp(cj) != 0 {
		return true, true
	}
	return false, false
}

func splitConst(t *Term) (*Term, *big.Int) {
	if t.Op == "int" {
		return nil, t.Int
	}
	if t.Op == "+" {
		last := t.Args[len(t.Args)-1]
		if last.Op == "int" {
			rest := t.Args[:len(t.Args)-1]
			if len(rest) == 1 {
				return rest[0], last.Int
			}
			return mk("+", "", SInt, nil, rest...), last.Int
		}
	}
	return t, new(big.Int)
}

func Store(a, i, v *Term) *Term {
	if a.Sort.Elem != v.Sort {
		panic(fmt.Sprintf("Store: elem sort mismatch %s vs %s", a.Sort.Elem, v.Sort))
	}
	if a.Op == "store" && a.Args[1] == i {
		a = a.Args[0]
	}
	return mk("store", "", a.Sort, nil, a, i, v)
}

func ConstArray(s *Sort, v *Term) *Term {
	return mk("constarr", "", s, nil, v)
}

// ---- datatypes ----

func MkCtor(c *Ctor, args ...*Term) *Term {
	if len(args) != len(c.Fields) {
		panic("MkCtor: arity " + c.Name)
	}
	for i, a := range args {
		if a.Sort != c.Fields[i].Sort {
			panic(fmt.Sprintf("MkCtor %s field %s: sort %s want %s", c.Name, c.Fields[i].Name, a.Sort, c.Fields[i].Sort))
		}
	}
	// eta: mk(sel0(x), sel1(x), ...) == x
	if len(args) > 0 && len(c.Sort.Ctors) == 1 {
		var base *Term
		ok := true
		for i, a := range args {
			if a.Op != "sel" || a.Name != c.Fields[i].Name {
				ok = false
				break
			}
			if base == nil {
				base = a.Args[0]
			} else if base != a.Args[0] {
				ok = false
				break
			}
		}
		if ok && base != nil && base.Sort == c.Sort {
			return base
		}
	}
	return mk("ctor", c.Name, c.Sort, nil, args...)
}

func ctorOf(s *Sort, name string) *Ctor {
	for _, c := range s.Ctors {
		if c.Name == name {
			return c
		}
	}
	return nil
}

var selMemo = map[[2]int]*Term{}
var selNameID = map[string]int{}

// SelField selects field i of constructor c from x (memoised: pushing selectors through
// shared if-then-else DAGs would otherwise take exponential time).
func SelField(c *Ctor, i int, x *Term) *Term {
	f := c.Fields[i]
	if x.Op == "ctor" && x.Name == c.Name {
		return x.Args[i]
	}
	if x.Op == "ite" {
		nid, ok := selNameID[f.Name]
		if !ok {
			nid = len(selNameID) + 1
			selNameID[f.Name] = nid
		}
		k := [2]int{nid, x.id}
		if r, ok := selMemo[k]; ok {
			return r
		}
		r := Ite(x.Args[0], SelField(c, i, x.Args[1]), SelField(c, i, x.Args[2]))
		selMemo[k] = r
		return r
	}
	return mk("sel", f.Name, f.Sort, nil, x)
}

func IsCtor(c *Ctor, x *Term) *Term {
	if x.Op == "ctor" {
		return BoolC(x.Name == c.Name)
	}
	if len(c.Sort.Ctors) == 1 {
		return TTrue
	}
	if x.Op == "ite" {
		nid, ok := selNameID["is:"+c.Name]
		if !ok {
			nid = len(selNameID) + 1
			selNameID["is:"+c.Name] = nid
		}
		k := [2]int{nid, x.id}
		if r, ok := selMemo[k]; ok {
			return r
		}
		r := Ite(x.Args[0], IsCtor(c, x.Args[1]), IsCtor(c, x.Args[2]))
		selMemo[k] = r
		return r
	}
	return mk("is", c.Name, SBool, nil, x)
}

// UpdField returns x with field i replaced.
func UpdField(c *Ctor, i int, x, v *Term) *Term {
	args := make([]*Term, len(c.Fields))
	for j := range args {
		if j == i {
			args[j] = v
		} else {
			args[j] = SelField(c, j, x)
		}
	}
	return MkCtor(c, args...)
}

// ---- uninterpreted functions ----

type UF struct {
	Name string
	Args []*Sort
	Ret  *Sort
}

var ufTab = map[string]*UF{}

func DeclUF(name string, ret *Sort, args ...*Sort) *UF {
	if u, ok := ufTab[name]; ok {
		return u
	}
	u := &UF{name, args, ret}
	ufTab[name] = u
	return u
}

func App(u *UF, args ...*Term) *Term {
	if len(args) != len(u.Args) {
		panic("App arity " + u.Name)
	}
	for i, a := range args {
		if a.Sort != u.Args[i] {
			panic(fmt.Sprintf("App %s arg %d: sort %s want %s", u.Name, i, a.Sort, u.Args[i]))
		}
	}
	return mk("app", u.Name, u.Ret, nil, args...)
}

// ---- quantifiers ----

func Forall(vars []*Term, body *Term) *Term {
	if body.IsTrue() {
		return TTrue
	}
	vars, body = canonBind(vars, body)
	t := mk("forall", fmt.Sprint(varIDs(vars)), SBool, nil, body)
	t.Bnd = vars
	return t
}

func Exists(vars []*Term, body *Term) *Term {
	if body.IsFalse() {
		return TFalse
	}
	vars, body = canonBind(vars, body)
	t := mk("exists", fmt.Sprint(varIDs(vars)), SBool, nil, body)
	t.Bnd = vars
	return t
}

// canonBind renames the bound variables of a quantifier to names determined by the nesting
// height of the quantifier (inner quantifiers have strictly smaller heights, so no capture),
// so that two evaluations of the same specification formula give the identical term whatever
// the names and depths of the contexts they were evaluated in.
func canonBind(vars []*Term, body *Term) ([]*Term, *Term) {
	if os.Getenv("GOVC_NOCANON") != "" {
		return vars, body
	}
	h := quantHeight(body) + 1
	m := map[*Term]*Term{}
	out := make([]*Term, len(vars))
	for k, v := range vars {
		name := fmt.Sprintf("$b!%d!%d!%s", h, k, v.Sort.String())
		nv := Sym(name, v.Sort)
		if v.Rng != nil || strings.HasPrefix(v.Name, "$b!") {
			nv = v // typed or already canonical: keep
		}
		out[k] = nv
		if nv != v {
			m[v] = nv
		}
	}
	if len(m) > 0 {
		body = Subst(body, m)
	}
	return out, body
}

var quantHeightMemo = map[*Term]int{}

func quantHeight(t *Term) int {
	if len(t.Args) == 0 {
		return 0
	}
	if h, ok := quantHeightMemo[t]; ok {
		return h
	}
	h := 0
	for _, a := range t.Args {
		if x := quantHeight(a); x > h {
			h = x
		}
	}
	if t.Op == "forall" || t.Op == "exists" {
		h++
	}
	quantHeightMemo[t] = h
	return h
}

func varIDs(vs []*Term) []int {
	r := make([]int, len(vs))
	for i, v := range vs {
		r[i] = v.id
	}
	return r
}

// Lam: the array  j |-> body  (only used inside stream segment items; eliminated before solving).
func Lam(j *Term, body *Term) *Term {
	t := mk("lam", fmt.Sprint(j.id), ArraySort(j.Sort, body.Sort), nil, body)
	t.Bnd = []*Term{j}
	return t
}

// ---- substitution ----

func Subst(t *Term, m map[*Term]*Term) *Term {
	memo := map[*Term]*Term{}
	var rec func(*Term) *Term
	rec = func(t *Term) *Term {
		if r, ok := m[t]; ok {
			return r
		}
		if len(t.Args) == 0 {
			return t
		}
		if r, ok := memo[t]; ok {
			return r
		}
		args := make([]*Term, len(t.Args))
		changed := false
		for i, a := range t.Args {
			args[i] = rec(a)
			if args[i] != a {
				changed = true
			}
		}
		var r *Term
		if !changed {
			r = t
		} else {
			r = rebuild(t, args)
		}
		memo[t] = r
		return r
	}
	return rec(t)
}

func rebuild(t *Term, args []*Term) *Term {
	switch t.Op {
	case "+":
		return Add(args...)
	case "-":
		if len(args) == 1 {
			return Neg(args[0])
		}
		return Sub(args[0], args[1])
	case "*":
		return Mul(args...)
	case "div":
		return Div(args[0], args[1])
	case "mod":
		return Mod(args[0], args[1])
	case "<", "<=", ">", ">=":
		return Cmp(t.Op, args[0], args[1])
	case "=":
		return Eq(args[0], args[1])
	case "not":
		return Not(args[0])
	case "and":
		return And(args...)
	case "or":
		return Or(args...)
	case "=>":
		return Implies(args[0], args[1])
	case "ite":
		return Ite(args[0], args[1], args[2])
	case "select":
		return Select(args[0], args[1])
	case "store":
		return Store(args[0], args[1], args[2])
	case "ctor":
		return MkCtor(ctorOf(t.Sort, t.Name), args...)
	case "sel":
		s := args[0].Sort
		for _, c := range s.Ctors {
			for i, f := range c.Fields {
				if f.Name == t.Name {
					r := SelField(c, i, args[0])
					if r.Rng == nil && t.Rng != nil {
						r.Rng = t.Rng
					}
					return r
				}
			}
		}
		panic("rebuild sel " + t.Name)
	case "is":
		return IsCtor(ctorOf(args[0].Sort, t.Name), args[0])
	case "forall", "exists":
		r := mk(t.Op, t.Name, SBool, nil, args...)
		r.Bnd = t.Bnd
		return r
	case "lam":
		return Lam(t.Bnd[0], args[0])
	}
	r := mk(t.Op, t.Name, t.Sort, t.Int, args...)
	if r.Rng == nil {
		r.Rng = t.Rng
	}
	return r
}

// ---- printing ----

func (t *Term) String() string {
	var sb strings.Builder
	printTerm(&sb, t, nil)
	return sb.String()
}

func printInt(sb *strings.Builder, v *big.Int) {
	if v.Sign() < 0 {
		sb.WriteString("(- ")
		sb.WriteString(new(big.Int).Neg(v).String())
		sb.WriteString(")")
	} else {
		sb.WriteString(v.String())
	}
}

// printShared prints a quantifier body with its repeated sub-terms bound by nested lets (the
// sub-terms that depend on the bound variables cannot be top-level define-funs).
func printShared(sb *strings.Builder, body *Term, named map[*Term]string) {
	refs := map[*Term]int{}
	var order []*Term
	seen := map[*Term]bool{}
	var rec func(*Term)
	rec = func(t *Term) {
		if named != nil {
			if _, ok := named[t]; ok {
				return
			}
		}
		refs[t]++
		if seen[t] {
			return
		}
		seen[t] = true
		if t.Op == "forall" || t.Op == "exists" || t.Op == "lam" {
			return // inner binders share within their own body
		}
		for _, a := range t.Args {
			rec(a)
		}
		order = append(order, t)
	}
	rec(body)
	local := map[*Term]string{}
	for k, v := range named {
		local[k] = v
	}
	n := 0
	for _, t := range order {
		if refs[t] > 1 && len(t.Args) > 0 && t != body {
			var b strings.Builder
			printTerm(&b, t, local)
			nm := fmt.Sprintf("$q%d_%d", body.id, n)
			n++
			fmt.Fprintf(sb, "(let ((%s %s)) ", nm, b.String())
			local[t] = nm
		}
	}
	printTerm(sb, body, local)
	for i := 0; i < n; i++ {
		sb.WriteByte(')')
	}
}

func printTerm(sb *strings.Builder, t *Term, named map[*Term]string) {
	if named != nil {
		if n, ok := named[t]; ok {
			sb.WriteString(n)
			return
		}
	}
	switch t.Op {
	case "true", "false":
		sb.WriteString(t.Op)
	case "int":
		printInt(sb, t.Int)
	case "bv":
		fmt.Fprintf(sb, "(_ bv%s %d)", t.Int.String(), t.Sort.Width)
	case "sym":
		sb.WriteString(quoteSym(t.Name))
	case "constarr":
		sb.WriteString("((as const ")
		sb.WriteString(t.Sort.String())
		sb.WriteString(") ")
		printTerm(sb, t.Args[0], named)
		sb.WriteString(")")
	case "ctor":
		if len(t.Args) == 0 {
			if len(t.Sort.Ctors) > 1 {
				sb.WriteString("(as " + quoteSym(t.Name) + " " + t.Sort.String() + ")")
			} else {
				sb.WriteString(quoteSym(t.Name))
			}
			return
		}
		sb.WriteString("(" + quoteSym(t.Name))
		for _, a := range t.Args {
			sb.WriteByte(' ')
			printTerm(sb, a, named)
		}
		sb.WriteString(")")
	case "sel", "app":
		if len(t.Args) == 0 {
			sb.WriteString(quoteSym(t.Name))
			return
		}
		sb.WriteString("(" + quoteSym(t.Name))
		for _, a := range t.Args {
			sb.WriteByte(' ')
			printTerm(sb, a, named)
		}
		sb.WriteString(")")
	case "is":
		sb.WriteString("((_ is " + quoteSym(t.Name) + ") ")
		printTerm(sb, t.Args[0], named)
		sb.WriteString(")")
	case "lam":
		sb.WriteString("(lambda ((" + quoteSym(t.Bnd[0].Name) + " " + t.Bnd[0].Sort.String() + ")) ")
		printTerm(sb, t.Args[0], named)
		sb.WriteString(")")
	case "forall", "exists":
		sb.WriteString("(" + t.Op + " (")
		for _, v := range t.Bnd {
			sb.WriteString("(" + quoteSym(v.Name) + " " + v.Sort.String() + ")")
		}
		sb.WriteString(") ")
		printShared(sb, t.Args[0], named)
		sb.WriteString(")")
	default:
		sb.WriteString("(" + t.Op)
		for _, a := range t.Args {
			sb.WriteByte(' ')
			printTerm(sb, a, named)
		}
		sb.WriteString(")")
	}
}

// Script renders a satisfiability query: assert all `asserts`; the caller has
// already negated the goal.  Returns SMT-LIB text.  symbols listed in `want`
// are requested in (get-value).
type Script struct {
	Asserts []*Term
	Want    []*Term
	Logic   string
	ForCVC5 bool
	RecDefs []*RecDef
	MBQI    bool // keep model-based quantifier instantiation (cover checks look for models)
}

type RecDef struct {
	UF     *UF
	Params []*Term
	Body   *Term
}

func collect(ts []*Term, visit func(*Term)) {
	seen := map[*Term]bool{}
	var rec func(*Term)
	rec = func(t *Term) {
		if seen[t] {
			return
		}
		seen[t] = true
		for _, a := range t.Args {
			rec(a)
		}
		visit(t)
	}
	for _, t := range ts {
		rec(t)
	}
}

func collectSorts(s *Sort, seen map[*Sort]bool, order *[]*Sort) {
	if seen[s] {
		return
	}
	seen[s] = true
	switch s.Kind {
	case KArray:
		collectSorts(s.Idx, seen, order)
		collectSorts(s.Elem, seen, order)
	case KDT:
		for _, c := range s.Ctors {
			for _, f := range c.Fields {
				collectSorts(f.Sort, seen, order)
			}
		}
		*order = append(*order, s)
	case KUnint:
		*order = append(*order, s)
	}
}

func (sc *Script) Render() string {
	var sb strings.Builder
	if sc.ForCVC5 {
		sb.WriteString("(set-option :produce-models true)\n(set-logic ALL)\n")
	} else {
		sb.WriteString("(set-option :produce-models true)\n")
	}
	// segment bodies (lambda terms) are opaque to the solvers: each distinct one becomes an
	// unconstrained array constant (sound: the obligation is then proved for every array)
	lams := map[*Term]*Term{}
	var findLams func(t *Term, seen map[*Term]bool)
	findLams = func(t *Term, seen map[*Term]bool) {
		if seen[t] {
			return
		}
		seen[t] = true
		if t.Op == "lam" {
			lams[t] = Sym(fmt.Sprintf("lam!%d", t.id), t.Sort)
			return
		}
		for _, a := range t.Args {
			findLams(a, seen)
		}
	}
	seenL := map[*Term]bool{}
	for _, a := range sc.Asserts {
		findLams(a, seenL)
	}
	if len(lams) > 0 {
		na := make([]*Term, len(sc.Asserts))
		for i, a := range sc.Asserts {
			na[i] = Subst(a, lams)
		}
		sc.Asserts = na
	}
	unfold := unfoldRecs(sc.Asserts, sc.RecDefs, 2)
	sc.Asserts = append(append([]*Term{}, sc.Asserts...), unfold...)
	all := append([]*Term{}, sc.Asserts...)
	hasQuant := false
	collect(all, func(t *Term) {
		if t.Op == "forall" || t.Op == "exists" {
			hasQuant = true
		}
	})
	if hasQuant && !sc.ForCVC5 && !sc.MBQI {
		sb.WriteString("(set-option :smt.mbqi false)\n")
	}
	// range facts for atoms (outside quantifiers only; bound-var atoms are handled by the builder)
	bound := map[*Term]bool{}
	collect(all, func(t *Term) {
		for _, b := range t.Bnd {
			bound[b] = true
		}
	})
	dependsBound := map[*Term]bool{}
	collect(all, func(t *Term) {
		if bound[t] {
			dependsBound[t] = true
			return
		}
		for _, a := range t.Args {
			if dependsBound[a] {
				dependsBound[t] = true
				return
			}
		}
	})
	var rangeFacts []*Term
	collect(all, func(t *Term) {
		if t.Rng != nil && !dependsBound[t] && t.Sort == SInt {
			rangeFacts = append(rangeFacts, rangeFact(t))
		}
	})
	all = append(all, rangeFacts...)
	// sorts, symbols, UFs
	seenSort := map[*Sort]bool{}
	var sorts []*Sort
	syms := map[string]*Term{}
	ufs := map[string]*UF{}
	refs := map[*Term]int{}
	collect(all, func(t *Term) {
		collectSorts(t.Sort, seenSort, &sorts)
		for _, b := range t.Bnd {
			collectSorts(b.Sort, seenSort, &sorts)
		}
		if t.Op == "sym" && !bound[t] {
			syms[t.Name] = t
		}
		if t.Op == "app" {
			ufs[t.Name] = ufTab[t.Name]
		}
		for _, a := range t.Args {
			refs[a]++
		}
	})
	for _, w := range sc.Want {
		if w.Op == "sym" {
			syms[w.Name] = w
			collectSorts(w.Sort, seenSort, &sorts)
		}
	}
	for _, u := range ufs {
		for _, a := range u.Args {
			collectSorts(a, seenSort, &sorts)
		}
		collectSorts(u.Ret, seenSort, &sorts)
	}
	for _, s := range sorts {
		if s.Kind == KUnint {
			fmt.Fprintf(&sb, "(declare-sort %s 0)\n", quoteSym(s.Name))
			continue
		}
		fmt.Fprintf(&sb, "(declare-datatypes ((%s 0)) ((", quoteSym(s.Name))
		for _, c := range s.Ctors {
			fmt.Fprintf(&sb, "(%s", quoteSym(c.Name))
			for _, f := range c.Fields {
				fmt.Fprintf(&sb, " (%s %s)", quoteSym(f.Name), sortRef(f.Sort))
			}
			sb.WriteString(")")
		}
		sb.WriteString(")))\n")
	}
	names := make([]string, 0, len(syms))
	for n := range syms {
		names = append(names, n)
	}
	sort.Strings(names)
	for _, n := range names {
		fmt.Fprintf(&sb, "(declare-fun %s () %s)\n", quoteSym(n), sortRef(syms[n].Sort))
	}
	unames := make([]string, 0, len(ufs))
	for n := range ufs {
		unames = append(unames, n)
	}
	sort.Strings(unames)
	for _, n := range unames {
		u := ufs[n]
		fmt.Fprintf(&sb, "(declare-fun %s (", quoteSym(n))
		for i, a := range u.Args {
			if i > 0 {
				sb.WriteByte(' ')
			}
			sb.WriteString(sortRef(a))
		}
		fmt.Fprintf(&sb, ") %s)\n", sortRef(u.Ret))
	}
	// shared sub-terms not depending on bound variables become define-funs
	named := map[*Term]string{}
	var order []*Term
	collect(all, func(t *Term) {
		if refs[t] > 1 && len(t.Args) > 0 && !dependsBound[t] && t.Op != "int" {
			order = append(order, t)
		}
	})
	for i, t := range order {
		var b strings.Builder
		printTerm(&b, t, named)
		n := fmt.Sprintf("$t%d", i)
		fmt.Fprintf(&sb, "(define-fun %s () %s %s)\n", n, sortRef(t.Sort), b.String())
		named[t] = n
	}
	for _, a := range sc.Asserts {
		sb.WriteString("(assert ")
		printTerm(&sb, a, named)
		sb.WriteString(")\n")
	}
	for _, a := range rangeFacts {
		sb.WriteString("(assert ")
		printTerm(&sb, a, named)
		sb.WriteString(")\n")
	}
	sb.WriteString("(check-sat)\n")
	if len(sc.Want) > 0 {
		sb.WriteString("(get-value (")
		for _, w := range sc.Want {
			printTerm(&sb, w, named)
			sb.WriteByte(' ')
		}
		sb.WriteString("))\n")
	}
	return sb.String()
}

func sortRef(s *Sort) string {
	if s.Kind == KDT || s.Kind == KUnint {
		return quoteSym(s.Name)
	}
	if s.Kind == KArray {
		return "(Array " + sortRef(s.Idx) + " " + sortRef(s.Elem) + ")"
	}
	return s.Name
}

// unfoldRecs instantiates the defining equation of every recursive spec function for each of
// its applications occurring (outside quantifier scope) in ts, to the given depth ("fuel").
// The functions are total (structural recursion on a decreasing integer with a base case), so
// the instances are consequences of the definition.
func unfoldRecs(ts []*Term, defs []*RecDef, depth int) []*Term {
	if len(defs) == 0 {
		return nil
	}
	byName := map[string]*RecDef{}
	for _, d := range defs {
		byName[d.UF.Name] = d
	}
	done := map[*Term]bool{}
	var out []*Term
	frontier := ts
	for lvl := 0; lvl < depth; lvl++ {
		bound := map[*Term]bool{}
		collect(frontier, func(t *Term) {
			for _, b := range t.Bnd {
				bound[b] = true
			}
		})
		var apps []*Term
		collect(frontier, func(t *Term) {
			if t.Op == "app" && byName[t.Name] != nil && !done[t] {
				dep := false
				collect([]*Term{t}, func(x *Term) {
					if bound[x] {
						dep = true
					}
				})
				if !dep {
					apps = append(apps, t)
				}
			}
		})
		var next []*Term
		for _, a := range apps {
			done[a] = true
			d := byName[a.Name]
			m := map[*Term]*Term{}
			for i, p := range d.Params {
				m[p] = a.Args[i]
			}
			inst := Eq(a, Subst(d.Body, m))
			out = append(out, inst)
			next = append(next, inst)
		}
		frontier = next
		if len(frontier) == 0 {
			break
		}
	}
	return out
}

func conjuncts(t *Term) []*Term {
	if t.Op == "and" {
		return t.Args
	}
	return []*Term{t}
}

// mergeComplement: if a = A ∧ c and b = A ∧ ¬c (same other conjuncts) return A.
func mergeComplement(a, b *Term) *Term {
	ca, cb := conjuncts(a), conjuncts(b)
	if len(ca) != len(cb) {
		return nil
	}
	inB := map[int]bool{}
	for _, x := range cb {
		inB[x.id] = true
	}
	var onlyA []*Term
	var common []*Term
	for _, x := range ca {
		if inB[x.id] {
			common = append(common, x)
		} else {
			onlyA = append(onlyA, x)
		}
	}
	if len(onlyA) != 1 || len(common) != len(ca)-1 {
		return nil
	}
	neg := Not(onlyA[0])
	if !inB[neg.id] {
		return nil
	}
	return And(common...)
}

var assumeMemo = map[[3]int]*Term{}

// assumeCond simplifies t under the assumption that condition c has truth value val, looking
// through if-then-else and boolean connectives only (bounded depth).
func assumeCond(t, c *Term, val bool, depth int) *Term {
	if t == c {
		return BoolC(val)
	}
	if t.Op == "not" && t.Args[0] == c {
		return BoolC(!val)
	}
	if depth == 0 {
		return t
	}
	switch t.Op {
	case "ite", "and", "or", "not":
	default:
		return t
	}
	v := 0
	if val {
		v = 1
	}
	k := [3]int{t.id, c.id, v}
	if r, ok := assumeMemo[k]; ok {
		return r
	}
	var r *Term
	switch t.Op {
	case "ite":
		cc := assumeCond(t.Args[0], c, val, depth-1)
		if cc.IsTrue() {
			r = assumeCond(t.Args[1], c, val, depth-1)
		} else if cc.IsFalse() {
			r = assumeCond(t.Args[2], c, val, depth-1)
		} else {
			x, y := assumeCond(t.Args[1], c, val, depth-1), assumeCond(t.Args[2], c, val, depth-1)
			if cc == t.Args[0] && x == t.Args[1] && y == t.Args[2] {
				r = t
			} else {
				r = Ite(cc, x, y)
			}
		}
	case "not":
		x := assumeCond(t.Args[0], c, val, depth-1)
		if x == t.Args[0] {
			r = t
		} else {
			r = Not(x)
		}
	default:
		args := make([]*Term, len(t.Args))
		changed := false
		for i, a := range t.Args {
			args[i] = assumeCond(a, c, val, depth-1)
			if args[i] != a {
				changed = true
			}
		}
		if !changed {
			r = t
		} else if t.Op == "and" {
			r = And(args...)
		} else {
			r = Or(args...)
		}
	}
	assumeMemo[k] = r
	return r
}
