package main

import (
	"os"
	"fmt"
	"go/token"
	"go/types"
	"math/big"

	"golang.org/x/tools/go/ssa"
)

func (fr *Frame) set(v ssa.Value, x Val) { fr.vals[v] = x }

func (fr *Frame) opaque(v ssa.Value, why string) {
	fr.vals[v] = OpaqueV{why, v.Type()}
}

func derefType(t types.Type) types.Type {
	if p, ok := t.Underlying().(*types.Pointer); ok {
		return p.Elem()
	}
	return t
}

func (fr *Frame) exec(in ssa.Instruction) {
	ex := fr.ex
	switch x := in.(type) {
	case *ssa.DebugRef:
		if !x.IsAddr {
			if id, ok := x.Expr.(interface{ String() string }); ok {
				_ = id
			}
			if obj := x.Object(); obj != nil {
				fr.named[obj.Name()] = fr.get(x.X)
			}
		}
	case *ssa.Phi:
		// handled at block entry
	case *ssa.Alloc:
		elem := x.Type().(*types.Pointer).Elem()
		c := fr.cells[x]
		if c == nil {
			c = ex.newCell(elem, x.Comment)
			fr.cells[x] = c
		}
		var z *Term
		func() {
			defer func() {
				if r := recover(); r != nil {
					z = nil
				}
			}()
			z = ZeroOf(elem)
		}()
		if _, isSig := elem.Underlying().(*types.Signature); isSig {
			fr.set(x, PtrV{Cell: c, Elem: elem})
			return
		}
		delete(fr.ex.mapCells, c)
		if z == nil {
			fr.opaque(x, "alloc of unsupported type "+elem.String())
			return
		}
		fr.mem[c] = z
		fr.set(x, PtrV{Cell: c, Elem: elem})
	case *ssa.Store:
		if g, isG := x.Addr.(*ssa.Global); isG && ex.initCapture != nil {
			// package initialiser being evaluated for its integer constants
			if tv, ok := fr.get(x.Val).(TV); ok && tv.T.Op == "int" {
				ex.initCapture[g] = tv.T
			}
			return
		}
		addr := fr.get(x.Addr)
		val := fr.get(x.Val)
		if os.Getenv("GOVC_STOREDBG") != "" {
			fmt.Fprintf(os.Stderr, "STOREDBG0 addr=%T %+v ssa=%T %s\n", addr, addr, x.Addr, x.Addr)
		}
		p, ok := addr.(PtrV)
		if !ok {
			// a pointer that was just loaded from a known location (p := holder.field; *p = v):
			// in the value model of pointers the store is a write of ref(v) to that location
			if os.Getenv("GOVC_STOREDBG") != "" {
				fmt.Fprintf(os.Stderr, "STOREDBG addr=%T ssa=%T %s\n", addr, x.Addr, x.Addr)
			}
			if ld, isLoad := x.Addr.(*ssa.UnOp); isLoad && ld.Op == token.MUL {
				if hp, isP := fr.get(ld.X).(PtrV); isP && hp.Cell != nil {
					if pt, isPT := ld.Type().Underlying().(*types.Pointer); isPT {
						if vt, okv := fr.term(val); okv {
							done := false
							func() {
								defer func() { recover() }()
								fr.store(hp, PtrRef(PtrSort(pt.Elem()), vt))
								done = true
							}()
							if done {
								return
							}
						}
					}
				}
			}
			if _, isOp := addr.(OpaqueV); isOp {
				return // store into ignored (opaque) memory, e.g. varargs of fmt.Errorf
			}
			ex.oos("%s: store through non-local pointer at %s", shortName(fr.fn.String()), fr.pos(in))
			return
		}
		if iv, isI := val.(IfaceV); isI && !isErrorType(iv.Typ) {
			// interface values (e.g. the arguments of hashAll) are kept on the side
			if fr.ex.valCells == nil {
				fr.ex.valCells = map[string]Val{}
			}
			fr.ex.valCells[cellKey(p)] = iv
			return
		}
		if tp, isP := val.(PtrV); isP && !p.Cell.Dyn && (len(tp.Path) == 0 && !tp.Cell.Param || p.Cell.Name == "varargs") {
			// pointer to a local cell stored into a field: remember the alias
			var keep []ptrAlias
			for _, al := range fr.ex.ptrAliases {
				if !(al.cell == p.Cell && samePath(al.path, p.Path)) {
					keep = append(keep, al)
				}
			}
			fr.ex.ptrAliases = append(keep, ptrAlias{p.Cell, append([]PathEl{}, p.Path...), tp, fr.cur})
		}
		if mv, isM := val.(MapV); isM && len(p.Path) == 0 {
			// a locally made map assigned to a variable cell: the cell aliases the map
			if fr.ex.mapCells == nil {
				fr.ex.mapCells = map[*Cell]MapV{}
			}
			fr.ex.mapCells[p.Cell] = mv
			return
		}
		if fv, isF := val.(FuncV); isF && len(p.Path) == 0 {
			if fr.ex.funcCells == nil {
				fr.ex.funcCells = map[*Cell]FuncV{}
			}
			fr.ex.funcCells[p.Cell] = fv
			return
		}
		t, ok := fr.term(val)
		if !ok {
			// storing an unsupported value: poison the cell location lazily
			if p.Cell.Name == "varargs" {
				return
			}
			t2 := fr.freshOfType(derefType(x.Addr.Type()), "opaque")
			if t2 == nil {
				return
			}
			t = t2
		}
		if want := sortAtPath(p); want != nil && want != t.Sort && p.Cell.Name == "varargs" {
			return // arguments of fmt.Errorf and friends are not modelled
		}
		if want := sortAtPath(p); want != nil && want != t.Sort {
			ex.oos("%s: store sort mismatch at %s (%s into %s)", shortName(fr.fn.String()), fr.pos(in), t.Sort.Name, want.Name)
			return
		}
		fr.store(p, t)
	case *ssa.UnOp:
		fr.execUnOp(x)
	case *ssa.BinOp:
		fr.execBinOp(x)
	case *ssa.FieldAddr:
		base := fr.get(x.X)
		st := derefType(x.X.Type())
		ft := st.Underlying().(*types.Struct).Field(x.Field).Type()
		switch p := base.(type) {
		case PtrV:
			np := PtrV{Cell: p.Cell, Path: append(append([]PathEl{}, p.Path...), PathEl{Field: x.Field}), Elem: ft}
			fr.set(x, np)
		case ValPtr:
			fr.set(x, ValPtr{Root: Typed(SelField(structCtor(st), x.Field, p.Root), ft), Elem: ft})
		case TV:
			// pointer loaded from data: Ptr DT
			if p.T.Sort.Kind == KDT && len(p.T.Sort.Ctors) == 2 {
				fr.safety(in, "nil", Not(PtrIsNil(p.T)))
				root := PtrVal(p.T)
				fr.set(x, ValPtr{Root: Typed(SelField(structCtor(st), x.Field, root), ft), Elem: ft})
			} else {
				fr.opaque(x, "fieldaddr on non-pointer term")
			}
		default:
			fr.opaque(x, fmt.Sprintf("fieldaddr on %T", base))
		}
	case *ssa.Field:
		base := fr.get(x.X)
		st := x.X.Type()
		ft := st.Underlying().(*types.Struct).Field(x.Field).Type()
		if tv, ok := base.(TV); ok {
			fr.set(x, TV{Typed(SelField(structCtor(st), x.Field, tv.T), ft), ft})
		} else {
			fr.opaque(x, "field of unsupported value")
		}
	case *ssa.IndexAddr:
		fr.execIndexAddr(x)
	case *ssa.Index:
		base := fr.get(x.X)
		idx, ok := fr.get(x.Index).(TV)
		tv, ok2 := base.(TV)
		if !ok || !ok2 {
			fr.opaque(x, "index of unsupported value")
			return
		}
		switch u := x.X.Type().Underlying().(type) {
		case *types.Array:
			fr.safety(in, "bounds", And(Le(IntC(0), idx.T), Lt(idx.T, IntC(u.Len()))))
			fr.set(x, TV{Typed(Select(tv.T, idx.T), u.Elem()), u.Elem()})
		case *types.Basic: // string
			fr.safety(in, "bounds", And(Le(IntC(0), idx.T), Lt(idx.T, SliceLen(tv.T))))
			fr.set(x, TV{Typed(SliceAt(tv.T, idx.T), types.Typ[types.Byte]), types.Typ[types.Byte]})
		default:
			fr.opaque(x, "index of "+x.X.Type().String())
		}
	case *ssa.Slice:
		fr.execSlice(x)
	case *ssa.Extract:
		t := fr.get(x.Tuple)
		if tup, ok := t.(TupleV); ok && x.Index < len(tup) {
			fr.set(x, tup[x.Index])
		} else {
			fr.opaque(x, "extract from unsupported tuple")
		}
	case *ssa.ChangeType:
		v := fr.get(x.X)
		switch p := v.(type) {
		case TV:
			fr.set(x, TV{convertRepr(p.T, x.X.Type(), x.Type()), x.Type()})
		default:
			fr.set(x, v)
		}
	case *ssa.Convert:
		fr.execConvert(x)
	case *ssa.MakeInterface:
		if isErrorType(x.Type()) {
			// a non-nil error value; identified by its creation site
			ex.errSite++
			fr.set(x, TV{IntC(int64(1000 + ex.errSite)), x.Type()})
			return
		}
		if us := unionSort(x.Type()); us != nil {
			if uc := unionCaseFor(us, x.X.Type()); uc != nil {
				var val *Term
				switch d := fr.get(x.X).(type) {
				case PtrV:
					val = fr.load(d)
				case ValPtr:
					val = d.Root
				case TV:
					if _, isP := x.X.Type().Underlying().(*types.Pointer); isP {
						fr.safety(x, "nil", Not(PtrIsNil(d.T)))
						val = PtrVal(d.T)
					} else {
						val = d.T
					}
				}
				if val != nil && val.Sort == uc.Ctor.Fields[0].Sort {
					fr.set(x, TV{MkCtor(uc.Ctor, val), x.Type()})
					return
				}
			}
		}
		fr.set(x, IfaceV{Dyn: fr.get(x.X), DynTyp: x.X.Type(), Typ: x.Type()})
	case *ssa.ChangeInterface:
		fr.set(x, fr.get(x.X))
	case *ssa.MakeClosure:
		var bind []Val
		for _, b := range x.Bindings {
			bind = append(bind, fr.get(b))
		}
		fr.set(x, FuncV{Fn: x.Fn.(*ssa.Function), Bind: bind})
	case *ssa.MakeSlice:
		fr.execMakeSlice(x)
	case *ssa.MakeMap:
		var z *Term
		func() {
			defer func() { recover() }()
			z = ZeroOf(x.Type())
		}()
		if z == nil {
			fr.opaque(x, "makemap unsupported type")
			return
		}
		c := z.Sort.Ctors[0]
		cell := fr.cells[x]
		if cell == nil {
			cell = ex.newCell(x.Type(), "map")
			fr.cells[x] = cell
		}
		fr.mem[cell] = UpdField(c, 3, z, TFalse)
		fr.set(x, MapV{Cell: cell, Typ: x.Type()})
	case *ssa.Lookup:
		fr.execLookup(x)
	case *ssa.MapUpdate:
		fr.execMapUpdate(x)
	case *ssa.TypeAssert:
		fr.execTypeAssert(x)
	case *ssa.If, *ssa.Jump:
		// edges handled by edgeCond
	case *ssa.Return:
		fr.execReturn(x)
	case *ssa.Panic:
		fr.execPanic(x)
	case *ssa.Call:
		fr.execCall(x, x.Common(), x)
	case *ssa.Defer:
		fr.defers = append(fr.defers, x)
	case *ssa.RunDefers:
		fr.runDefers(x)
	case *ssa.Go:
		ex.oos("%s: go statement at %s", shortName(fr.fn.String()), fr.pos(in))
	case *ssa.Range:
		fr.opaque(x, "map/string range")
		ex.oos("%s: range over map/string at %s", shortName(fr.fn.String()), fr.pos(in))
	case *ssa.Next:
		fr.opaque(x, "map/string next")
	case *ssa.SliceToArrayPointer:
		fr.execSliceToArrayPointer(x)
	default:
		if v, ok := in.(ssa.Value); ok {
			fr.opaque(v, fmt.Sprintf("unsupported instruction %T", in))
		}
		ex.oos("%s: unsupported instruction %T at %s", shortName(fr.fn.String()), in, fr.pos(in))
	}
}

func sortAtPath(p PtrV) *Sort {
	var s *Sort
	func() {
		defer func() { recover() }()
		s = SortOf(p.Elem)
	}()
	return s
}

func (fr *Frame) freshOfType(t types.Type, prefix string) (r *Term) {
	defer func() {
		if recover() != nil {
			r = nil
		}
	}()
	return Typed(Fresh(prefix, SortOf(t)), t)
}

func (fr *Frame) execUnOp(x *ssa.UnOp) {
	v := fr.get(x.X)
	switch x.Op {
	case token.MUL: // load
		switch p := v.(type) {
		case PtrV:
			if _, isSig := x.Type().Underlying().(*types.Signature); isSig {
				if fv, ok := fr.ex.funcCells[p.Cell]; ok && len(p.Path) == 0 {
					fr.set(x, fv)
					return
				}
				fr.opaque(x, "load of unknown function value")
				return
			}
			if mv, ok := fr.ex.mapCells[p.Cell]; ok && len(p.Path) == 0 {
				fr.set(x, mv)
				return
			}
			if _, isI := x.Type().Underlying().(*types.Interface); isI {
				if iv, ok := fr.ex.valCells[cellKey(p)]; ok {
					fr.set(x, iv)
					return
				}
			}
			if _, isPtr := x.Type().Underlying().(*types.Pointer); isPtr {
				if tp, ok := fr.aliasAt(p.Cell, p.Path); ok {
					fr.set(x, tp)
					return
				}
			}
			t := fr.load(p)
			t = retype(t, x.Type())
			fr.set(x, TV{Typed(t, x.Type()), x.Type()})
		case ValPtr:
			fr.set(x, TV{Typed(p.Root, x.Type()), x.Type()})
		case TV:
			if p.T.Sort.Kind == KDT && len(p.T.Sort.Ctors) == 2 {
				fr.safety(x, "nil", Not(PtrIsNil(p.T)))
				fr.set(x, TV{Typed(PtrVal(p.T), x.Type()), x.Type()})
			} else {
				fr.opaque(x, "load through non-pointer term")
			}
		default:
			fr.opaque(x, fmt.Sprintf("load through %T", v))
		}
	case token.NOT:
		if tv, ok := v.(TV); ok {
			fr.set(x, TV{Not(tv.T), x.Type()})
		} else {
			fr.opaque(x, "not of unsupported")
		}
	case token.SUB:
		if tv, ok := v.(TV); ok {
			fr.set(x, TV{wrapTo(Neg(tv.T), x.Type()), x.Type()})
		} else {
			fr.opaque(x, "neg of unsupported")
		}
	case token.XOR:
		if tv, ok := v.(TV); ok && isInteger(x.Type()) {
			b := x.Type().Underlying().(*types.Basic)
			lo, hi, _ := intRange(b)
			if isUnsigned(x.Type()) {
				fr.set(x, TV{WithRange(Sub(IntB(hi), tv.T), lo, hi), x.Type()})
			} else {
				fr.set(x, TV{WithRange(Sub(IntC(-1), tv.T), lo, hi), x.Type()})
			}
		} else {
			fr.opaque(x, "complement of unsupported")
		}
	default:
		fr.opaque(x, "unop "+x.Op.String())
	}
}

func (fr *Frame) execBinOp(x *ssa.BinOp) {
	a, b := fr.get(x.X), fr.get(x.Y)
	ta, oka := fr.term(a)
	tb, okb := fr.term(b)
	switch x.Op {
	case token.EQL, token.NEQ:
		var eq *Term
		if ia, ok := a.(IfaceV); ok && !isErrorType(ia.Typ) {
			if ib, ok := b.(IfaceV); ok && ib.Dyn == nil {
				eq = BoolC(ia.Dyn == nil)
			}
		}
		if eq == nil && oka && okb && ta.Sort == tb.Sort && isSliceSort(ta.Sort) && !isString(x.X.Type()) {
			// slices are only comparable with nil
			if c, ok := x.Y.(*ssa.Const); ok && c.IsNil() {
				eq = SliceIsNil(ta)
				fr.ex.assume(fr.cur, Implies(eq, Eq(SliceLen(ta), IntC(0))))
			} else if c, ok := x.X.(*ssa.Const); ok && c.IsNil() {
				eq = SliceIsNil(tb)
				fr.ex.assume(fr.cur, Implies(eq, Eq(SliceLen(tb), IntC(0))))
			}
		}
		if eq == nil {
			if !oka || !okb || ta.Sort != tb.Sort {
				fr.opaque(x, "comparison of unsupported values")
				return
			}
			eq = fr.goEq(ta, tb, x.X.Type())
		}
		if x.Op == token.NEQ {
			eq = Not(eq)
		}
		fr.set(x, TV{eq, x.Type()})
		return
	}
	if !oka || !okb {
		fr.opaque(x, "binop on unsupported values")
		return
	}
	t := x.X.Type()
	if isString(t) {
		switch x.Op {
		case token.ADD:
			if sa, ok := strOf[ta]; ok {
				if sb, ok := strOf[tb]; ok {
					fr.set(x, TV{StringConst(sa + sb), x.Type()})
					return
				}
			}
			fr.set(x, TV{Fresh("strcat", SortOf(t)), x.Type()})
			r := fr.vals[x].(TV).T
			fr.ex.assume(fr.cur, Eq(SliceLen(r), Add(SliceLen(ta), SliceLen(tb))))
		default:
			fr.opaque(x, "string comparison")
		}
		return
	}
	if ta.Sort == SBool {
		fr.opaque(x, "bool binop "+x.Op.String())
		return
	}
	if ta.Sort != SInt || tb.Sort != SInt {
		fr.opaque(x, "binop on non-integers")
		return
	}
	switch x.Op {
	case token.LSS:
		fr.set(x, TV{Lt(ta, tb), x.Type()})
	case token.LEQ:
		fr.set(x, TV{Le(ta, tb), x.Type()})
	case token.GTR:
		fr.set(x, TV{Gt(ta, tb), x.Type()})
	case token.GEQ:
		fr.set(x, TV{Ge(ta, tb), x.Type()})
	default:
		if !isInteger(x.Type()) {
			fr.opaque(x, "arith on non-integer type")
			return
		}
		if (x.Op == token.SHL || x.Op == token.SHR) && !isUnsigned(x.Y.Type()) {
			fr.safety(x, "shift", Ge(tb, IntC(0)))
		}
		r, safe := arithBin(x.Op, ta, tb, x.Type())
		if safe != nil {
			fr.safety(x, "div", safe)
		}
		fr.set(x, TV{r, x.Type()})
	}
}

// goEq is Go's == on values of type t.
func (fr *Frame) goEq(a, b *Term, t types.Type) *Term {
	return Eq(a, b)
}

func (fr *Frame) execIndexAddr(x *ssa.IndexAddr) {
	base := fr.get(x.X)
	idxV, ok := fr.get(x.Index).(TV)
	if !ok {
		fr.opaque(x, "index is unsupported")
		return
	}
	idx := idxV.T
	elem := x.Type().(*types.Pointer).Elem()
	switch p := base.(type) {
	case PtrV: // pointer to array
		at, ok := p.Elem.Underlying().(*types.Array)
		if !ok {
			fr.opaque(x, "indexaddr on pointer to non-array")
			return
		}
		fr.safety(x, "bounds", And(Le(IntC(0), idx), Lt(idx, IntC(at.Len()))))
		fr.set(x, PtrV{Cell: p.Cell, Path: append(append([]PathEl{}, p.Path...), PathEl{IsIdx: true, Idx: idx}), Elem: elem})
	case ValPtr:
		at, ok := p.Elem.Underlying().(*types.Array)
		if !ok {
			fr.opaque(x, "indexaddr on valptr to non-array")
			return
		}
		fr.safety(x, "bounds", And(Le(IntC(0), idx), Lt(idx, IntC(at.Len()))))
		fr.set(x, ValPtr{Root: Typed(Select(p.Root, idx), elem), Elem: elem})
	case SliceV:
		fr.safety(x, "bounds", And(Le(IntC(0), idx), Lt(idx, Sub(p.Hi, p.Lo))))
		fr.set(x, PtrV{Cell: p.Cell, Path: append(append([]PathEl{}, p.Path...), PathEl{IsIdx: true, Idx: Add(p.Lo, idx)}), Elem: elem})
	case TV:
		if _, isSlice := x.X.Type().Underlying().(*types.Slice); isSlice {
			fr.safety(x, "bounds", And(Le(IntC(0), idx), Lt(idx, SliceLen(p.T))))
			fr.set(x, ValPtr{Root: Typed(SliceAt(p.T, idx), elem), Elem: elem})
			return
		}
		// pointer-to-array as a term
		if p.T.Sort.Kind == KDT && len(p.T.Sort.Ctors) == 2 {
			at := derefType(x.X.Type()).Underlying().(*types.Array)
			fr.safety(x, "nil", Not(PtrIsNil(p.T)))
			fr.safety(x, "bounds", And(Le(IntC(0), idx), Lt(idx, IntC(at.Len()))))
			fr.set(x, ValPtr{Root: Typed(Select(PtrVal(p.T), idx), elem), Elem: elem})
			return
		}
		fr.opaque(x, "indexaddr on term")
	default:
		fr.opaque(x, fmt.Sprintf("indexaddr on %T", base))
	}
}

func (fr *Frame) execSlice(x *ssa.Slice) {
	base := fr.get(x.X)
	getIdx := func(v ssa.Value) (*Term, bool) {
		if v == nil {
			return nil, true
		}
		tv, ok := fr.get(v).(TV)
		if !ok {
			return nil, false
		}
		return tv.T, true
	}
	lo, ok1 := getIdx(x.Low)
	hi, ok2 := getIdx(x.High)
	if !ok1 || !ok2 || x.Max != nil {
		fr.opaque(x, "slice with unsupported bounds")
		return
	}
	if lo == nil {
		lo = IntC(0)
	}
	switch p := base.(type) {
	case PtrV: // pointer to array
		at, ok := p.Elem.Underlying().(*types.Array)
		if !ok {
			fr.opaque(x, "slice of pointer to non-array")
			return
		}
		n := IntC(at.Len())
		if hi == nil {
			hi = n
		}
		fr.safety(x, "bounds", And(Le(IntC(0), lo), Le(lo, hi), Le(hi, n)))
		fr.set(x, SliceV{Cell: p.Cell, Path: p.Path, Lo: lo, Hi: hi, Cap: n, Elem: at.Elem(), Typ: x.Type()})
	case SliceV:
		if hi == nil {
			hi = Sub(p.Hi, p.Lo)
		}
		fr.safety(x, "bounds", And(Le(IntC(0), lo), Le(lo, hi), Le(Add(p.Lo, hi), p.Cap)))
		fr.set(x, SliceV{Cell: p.Cell, Path: p.Path, Lo: Add(p.Lo, lo), Hi: Add(p.Lo, hi), Cap: p.Cap, Elem: p.Elem, Typ: x.Type()})
	case ValPtr:
		at, ok := p.Elem.Underlying().(*types.Array)
		if !ok {
			fr.opaque(x, "slice of valptr to non-array")
			return
		}
		n := IntC(at.Len())
		if hi == nil {
			hi = n
		}
		fr.safety(x, "bounds", And(Le(IntC(0), lo), Le(lo, hi), Le(hi, n)))
		fr.set(x, TV{MkSlice(SortOf(x.Type()), Sub(hi, lo), lo, p.Root), x.Type()})
	case TV:
		if isSliceSort(p.T.Sort) {
			n := SliceLen(p.T)
			if hi == nil {
				hi = n
			}
			// NOTE: re-slicing up to cap is not modelled; hi <= len is required (stricter than Go)
			fr.safety(x, "bounds", And(Le(IntC(0), lo), Le(lo, hi), Le(hi, n)))
			fr.set(x, TV{MkSlice(p.T.Sort, Sub(hi, lo), Add(SliceOff(p.T), lo), SliceArr(p.T)), x.Type()})
			return
		}
		if p.T.Sort.Kind == KDT && len(p.T.Sort.Ctors) == 2 { // *[N]T term
			at, ok := derefType(x.X.Type()).Underlying().(*types.Array)
			if ok {
				n := IntC(at.Len())
				if hi == nil {
					hi = n
				}
				fr.safety(x, "nil", Not(PtrIsNil(p.T)))
				fr.safety(x, "bounds", And(Le(IntC(0), lo), Le(lo, hi), Le(hi, n)))
				fr.set(x, TV{MkSlice(SortOf(x.Type()), Sub(hi, lo), lo, PtrVal(p.T)), x.Type()})
				return
			}
		}
		fr.opaque(x, "slice of term")
	case OpaqueV:
		fr.set(x, OpaqueV{p.Why, x.Type()})
	default:
		fr.opaque(x, fmt.Sprintf("slice of %T", base))
	}
}

func (fr *Frame) execSliceToArrayPointer(x *ssa.SliceToArrayPointer) {
	base := fr.get(x.X)
	at := x.Type().(*types.Pointer).Elem().Underlying().(*types.Array)
	n := IntC(at.Len())
	switch p := base.(type) {
	case TV:
		fr.safety(x, "bounds", Ge(SliceLen(p.T), n))
		// array view: arr shifted by off.  Only off == 0 views are representable without lambdas.
		arr := Fresh("arrview", ArraySort(SInt, SortOf(at.Elem())))
		for i := int64(0); i < at.Len() && at.Len() <= 64; i++ {
			fr.ex.assume(fr.cur, Eq(Select(arr, IntC(i)), SliceAt(p.T, IntC(i))))
		}
		if at.Len() > 64 {
			fr.ex.oos("%s: slice->array pointer of length %d", shortName(fr.fn.String()), at.Len())
		}
		fr.set(x, ValPtr{Root: arr, Elem: x.Type().(*types.Pointer).Elem()})
	default:
		fr.opaque(x, "slice to array pointer of unsupported slice")
	}
}

func (fr *Frame) execConvert(x *ssa.Convert) {
	v := fr.get(x.X)
	from, to := x.X.Type(), x.Type()
	tv, ok := v.(TV)
	if !ok {
		if sv, isS := v.(SliceV); isS {
			if t, ok := fr.term(sv); ok {
				tv = TV{t, from}
				ok = true
			}
		}
		if !ok {
			fr.opaque(x, "convert of unsupported value")
			return
		}
	}
	switch {
	case isInteger(from) && isInteger(to):
		fr.set(x, TV{wrapTo(tv.T, to), to})
	case SortOf(from) == SortOf(to):
		fr.set(x, TV{tv.T, to}) // string <-> []byte and named conversions: same representation (copy semantics ignored: values are immutable terms)
	case types.IdenticalIgnoreTags(from.Underlying(), to.Underlying()):
		fr.set(x, TV{convertRepr(tv.T, from, to), to})
	default:
		fr.opaque(x, fmt.Sprintf("convert %s -> %s", from, to))
	}
}

func (fr *Frame) execMakeSlice(x *ssa.MakeSlice) {
	ln, ok := fr.get(x.Len).(TV)
	if !ok {
		fr.opaque(x, "make with unsupported len")
		return
	}
	elem := x.Type().Underlying().(*types.Slice).Elem()
	var z *Term
	func() {
		defer func() { recover() }()
		z = ZeroOf(elem)
	}()
	if z == nil {
		fr.opaque(x, "make of unsupported elem type")
		return
	}
	fr.safety(x, "makelen", And(Le(IntC(0), ln.T), Le(ln.T, IntB(Pow2(42)))))
	c := fr.cells[x]
	if c == nil {
		c = fr.ex.newCell(elem, "make")
		c.Dyn = true
		fr.cells[x] = c
	}
	fr.mem[c] = ConstArray(ArraySort(SInt, z.Sort), z)
	capT := ln.T
	if x.Cap != nil {
		if cv, ok := fr.get(x.Cap).(TV); ok {
			capT = cv.T
		}
	}
	fr.set(x, SliceV{Cell: c, Lo: IntC(0), Hi: ln.T, Cap: capT, Elem: elem, Typ: x.Type()})
}

func (fr *Frame) execLookup(x *ssa.Lookup) {
	mval := fr.get(x.X)
	if mv, ok := mval.(MapV); ok {
		mval = TV{fr.mem[mv.Cell], mv.Typ}
	}
	m, ok1 := mval.(TV)
	k, ok2 := fr.term(fr.get(x.Index))
	if !ok1 || !ok2 {
		fr.opaque(x, "lookup on unsupported map/key")
		return
	}
	if isString(x.X.Type()) {
		fr.safety(x, "bounds", And(Le(IntC(0), k), Lt(k, SliceLen(m.T))))
		fr.set(x, TV{Typed(SliceAt(m.T, k), types.Typ[types.Byte]), types.Typ[types.Byte]})
		return
	}
	mt := x.X.Type().Underlying().(*types.Map)
	c := m.T.Sort.Ctors[0]
	has := Select(SelField(c, 0, m.T), k)
	val := Typed(Select(SelField(c, 1, m.T), k), mt.Elem())
	res := TV{Ite(has, val, ZeroOf(mt.Elem())), mt.Elem()}
	if x.CommaOk {
		fr.set(x, TupleV{res, TV{has, types.Typ[types.Bool]}})
	} else {
		fr.set(x, res)
	}
}

func (fr *Frame) execMapUpdate(x *ssa.MapUpdate) {
	// maps are values held in SSA registers: an update must be visible through
	// every alias.  Only maps stored in a local cell or made locally are supported:
	// the update is recorded against the defining value.
	mv := fr.get(x.Map)
	var mapCell *Cell
	if mm, ok := mv.(MapV); ok {
		mapCell = mm.Cell
		mv = TV{fr.mem[mm.Cell], mm.Typ}
	}
	m, ok1 := mv.(TV)
	k, ok2 := fr.term(fr.get(x.Key))
	v, ok3 := fr.term(fr.get(x.Value))
	if !ok1 || !ok2 || !ok3 {
		fr.ex.oos("%s: map update on unsupported values at %s", shortName(fr.fn.String()), fr.pos(x))
		return
	}
	c := m.T.Sort.Ctors[0]
	fr.safety(x, "nilmap", Not(SelField(c, 3, m.T)))
	has := SelField(c, 0, m.T)
	nm := MkCtor(c, Store(has, k, TTrue), Store(SelField(c, 1, m.T), k, v),
		Ite(Select(has, k), SelField(c, 2, m.T), Add(SelField(c, 2, m.T), IntC(1))), TFalse)
	if mapCell != nil {
		fr.mem[mapCell] = nm
		return
	}
	// a map held in a local variable that is captured by a closure: the variable is a cell;
	// write the updated map back to it (the cell is the only alias inside the verified function)
	if ld, ok := x.Map.(*ssa.UnOp); ok && ld.Op == token.MUL {
		if p, ok := fr.get(ld.X).(PtrV); ok && (!p.Cell.Param || (fr.top && fr.con != nil && fr.con.AssertsOnly)) {
			// (a mutator executed for its assertions only: the map is a field of the receiver
			// and the update is written back to that field)
			fr.store(p, nm)
			return
		}
	}
	fr.ex.oos("%s: update of a map that is not a local make at %s", shortName(fr.fn.String()), fr.pos(x))
}

func (fr *Frame) mapVersion(v ssa.Value, t *Term) {}

func (fr *Frame) execTypeAssert(x *ssa.TypeAssert) {
	v := fr.get(x.X)
	if tv, ok := v.(TV); ok && unionCases[tv.T.Sort] != nil {
		if uc := unionCaseFor(tv.T.Sort, x.AssertedType); uc != nil {
			is := IsCtor(uc.Ctor, tv.T)
			payload := Typed(SelField(uc.Ctor, 0, tv.T), uc.Elem)
			var res Val
			if _, isP := x.AssertedType.Underlying().(*types.Pointer); isP {
				res = TV{PtrRef(PtrSort(uc.Elem), payload), x.AssertedType}
			} else {
				res = TV{payload, x.AssertedType}
			}
			if x.CommaOk {
				// on failure Go yields the zero value
				if rt, ok := res.(TV); ok {
					res = TV{Ite(is, rt.T, ZeroOf(x.AssertedType)), x.AssertedType}
				}
				fr.set(x, TupleV{res, TV{is, types.Typ[types.Bool]}})
			} else {
				fr.safety(x, "typeassert", is)
				fr.set(x, res)
			}
			return
		}
	}
	if tv, ok := v.(TV); ok && unionCases[tv.T.Sort] != nil {
		if it, isI := x.AssertedType.Underlying().(*types.Interface); isI {
			all := true
			for _, uc := range unionCases[tv.T.Sort] {
				if !types.Implements(uc.Typ, it) {
					all = false
				}
			}
			if all {
				// every implementer of the sealed interface implements the asserted one:
				// the assertion succeeds iff the value is non-nil; the value stays a union
				nonNil := Not(IsCtor(tv.T.Sort.Ctors[0], tv.T))
				res := TV{tv.T, x.AssertedType}
				if x.CommaOk {
					fr.set(x, TupleV{res, TV{nonNil, types.Typ[types.Bool]}})
				} else {
					fr.safety(x, "typeassert", nonNil)
					fr.set(x, res)
				}
				return
			}
		}
	}
	iv, ok := v.(IfaceV)
	if !ok {
		fr.opaque(x, "type assert on symbolic interface")
		return
	}
	if iv.Dyn != nil {
		var res Val
		match := false
		if it, isI := x.AssertedType.Underlying().(*types.Interface); isI {
			match = types.Implements(iv.DynTyp, it)
			res = iv
		} else {
			match = types.Identical(iv.DynTyp, x.AssertedType)
			res = iv.Dyn
		}
		if !match {
			res = OpaqueV{"failed type assertion", x.AssertedType}
			func() {
				defer func() { recover() }()
				res = TV{ZeroOf(x.AssertedType), x.AssertedType}
			}()
		}
		if x.CommaOk {
			fr.set(x, TupleV{res, TV{BoolC(match), types.Typ[types.Bool]}})
		} else {
			fr.safety(x, "typeassert", BoolC(match))
			fr.set(x, res)
		}
		return
	}
	fr.opaque(x, "type assert")
}

func (fr *Frame) execReturn(x *ssa.Return) {
	var vals []Val
	for _, r := range x.Results {
		v := fr.get(r)
		if sv, ok := v.(SliceV); ok && (!fr.top || multiReturn(fr.fn)) {
			// a slice of a callee-local array escapes: snapshot its contents
			if t, ok := fr.term(sv); ok {
				v = TV{t, sv.Typ}
			}
		}
		vals = append(vals, v)
	}
	fr.rets = append(fr.rets, retInfo{guard: fr.cur, vals: vals, mem: fr.mem.clone(), block: fr.curBlock})
	if fr.top && fr.con != nil {
		for _, cl := range fr.con.ExitAsserts {
			env := fr.bodyEnv(fr.curBlock, fr.mem)
			if env == nil {
				continue
			}
			t, err := env.EvalBool(cl.Expr)
			if err != nil {
				fr.ex.oos("%s: exit-assert %s: %v", shortName(fr.fn.String()), cl.Label, err)
				continue
			}
			fr.ex.oblige(fmt.Sprintf("exit#%d/assert:%s", len(fr.rets), cl.Label), "assert", fr.ex.P.Pos(fr.fn.Pos()), fr.cur, t)
		}
	}
}

func (fr *Frame) execPanic(x *ssa.Panic) {
	ex := fr.ex
	if !ex.MayPanic {
		goal := TFalse
		if ex.PanicOK != nil {
			goal = ex.PanicOK
		}
		ex.oblige(fr.site(x)+"/unreachable", "panic", fr.pos(x), fr.cur, goal)
	}
	fr.cur = TFalse
}

func (fr *Frame) runDefers(x *ssa.RunDefers) {
	for i := len(fr.defers) - 1; i >= 0; i-- {
		d := fr.defers[i]
		fr.execCall(nil, d.Common(), d)
	}
}

var _ = big.NewInt

// convertRepr converts a term between the sorts of two Go types with identical underlying
// types (distinct named struct types are distinct datatypes).
func convertRepr(x *Term, from, to types.Type) (r *Term) {
	defer func() {
		if recover() != nil {
			r = x
		}
	}()
	ts := SortOf(to)
	if x.Sort == ts {
		return x
	}
	switch fu := from.Underlying().(type) {
	case *types.Struct:
		tu, ok := to.Underlying().(*types.Struct)
		if !ok || tu.NumFields() != fu.NumFields() {
			return x
		}
		fc, tc := structCtor(from), structCtor(to)
		args := make([]*Term, fu.NumFields())
		for i := range args {
			args[i] = convertRepr(SelField(fc, i, x), fu.Field(i).Type(), tu.Field(i).Type())
		}
		return MkCtor(tc, args...)
	}
	return x
}

func cellKey(p PtrV) string {
	k := fmt.Sprintf("%d", p.Cell.ID)
	for _, el := range p.Path {
		if el.IsIdx {
			k += fmt.Sprintf("[%s]", el.Idx.String())
		} else {
			k += fmt.Sprintf(".%d", el.Field)
		}
	}
	return k
}

func multiReturn(f *ssa.Function) bool {
	n := 0
	for _, b := range f.Blocks {
		for _, in := range b.Instrs {
			if _, ok := in.(*ssa.Return); ok {
				n++
			}
		}
	}
	return n > 1
}

// retype converts a struct term to the datatype of another named type with the same underlying
// struct (a pointer conversion such as (*V2TransactionSemantics)(txn) followed by a load).
func retype(x *Term, to types.Type) (r *Term) {
	defer func() {
		if recover() != nil {
			r = x
		}
	}()
	if x == nil {
		return x
	}
	ts := SortOf(to)
	if x.Sort == ts {
		return x
	}
	if tu, ok := to.Underlying().(*types.Struct); ok && x.Sort.Kind == KDT && len(x.Sort.Ctors) == 1 && len(x.Sort.Ctors[0].Fields) == tu.NumFields() && len(ts.Ctors) == 1 {
		fc, tc := x.Sort.Ctors[0], structCtor(to)
		args := make([]*Term, tu.NumFields())
		for i := range args {
			args[i] = retype(SelField(fc, i, x), tu.Field(i).Type())
		}
		return MkCtor(tc, args...)
	}
	return x
}
