package main

// Replay of solver counterexamples on the real code: a generated in-package
// test calls the function with the model's inputs (go test -overlay, nothing is
// written into the repository), dumps the outcome, and the contract is then
// evaluated on the concrete inputs/outputs.

import (
	"bytes"
	"encoding/json"
	"fmt"
	"go/types"
	"os"
	"os/exec"
	"path/filepath"
	"regexp"
	"sort"
	"strings"

	"golang.org/x/tools/go/ssa"
)

type litCtx struct {
	pkg     *types.Package
	imports map[string]string // path -> name
	err     error
}

func (lc *litCtx) qual(p *types.Package) string {
	if p == lc.pkg {
		return ""
	}
	lc.imports[p.Path()] = p.Name()
	return p.Name()
}

func (lc *litCtx) typeStr(t types.Type) string { return types.TypeString(t, lc.qual) }

func (lc *litCtx) fail(format string, a ...any) string {
	if lc.err == nil {
		lc.err = fmt.Errorf(format, a...)
	}
	return "nil"
}

// goLit renders constant term x of Go type t as a Go expression.
func (lc *litCtx) goLit(x *Term, t types.Type) string {
	if isErrorType(t) {
		if x.Op == "int" && x.Int.Sign() == 0 {
			return "error(nil)"
		}
		lc.imports["errors"] = "errors"
		return `errors.New("replay")`
	}
	switch u := t.Underlying().(type) {
	case *types.Basic:
		switch {
		case u.Info()&types.IsBoolean != 0:
			if x.IsTrue() {
				return lc.typeStr(t) + "(true)"
			}
			if x.IsFalse() {
				return lc.typeStr(t) + "(false)"
			}
		case u.Info()&types.IsInteger != 0:
			if x.Op == "int" {
				return fmt.Sprintf("%s(%s)", lc.typeStr(t), x.Int.String())
			}
		case u.Info()&types.IsString != 0:
			bs := lc.sliceElems(x, types.Typ[types.Byte])
			return fmt.Sprintf("%s([]byte{%s})", lc.typeStr(t), strings.Join(bs, ", "))
		}
	case *types.Struct:
		c := structCtor(t)
		var fs []string
		for i := 0; i < u.NumFields(); i++ {
			f := u.Field(i)
			if f.Pkg() != nil && f.Pkg() != lc.pkg && !f.Exported() {
				// unexported field of a foreign type (e.g. time.Time): the replay uses the zero
				// value; if that matters the replay simply does not reproduce.
				continue
			}
			fs = append(fs, f.Name()+": "+lc.goLit(SelField(c, i, x), f.Type()))
		}
		return lc.typeStr(t) + "{" + strings.Join(fs, ", ") + "}"
	case *types.Array:
		if u.Len() > 4096 {
			return lc.fail("array too long")
		}
		var es []string
		for i := int64(0); i < u.Len(); i++ {
			es = append(es, lc.goLit(Select(x, IntC(i)), u.Elem()))
		}
		return lc.typeStr(t) + "{" + strings.Join(es, ", ") + "}"
	case *types.Slice:
		es := lc.sliceElems(x, u.Elem())
		if len(es) == 0 && SliceIsNil(x).IsTrue() {
			return lc.typeStr(t) + "(nil)"
		}
		return lc.typeStr(t) + "{" + strings.Join(es, ", ") + "}"
	case *types.Map:
		if x.Op == "ctor" && len(x.Args) == 4 {
			if x.Args[3].IsTrue() {
				return lc.typeStr(t) + "(nil)"
			}
			var es []string
			has, val := x.Args[0], x.Args[1]
			for has.Op == "store" {
				if has.Args[2].IsTrue() {
					es = append(es, lc.goLit(has.Args[1], u.Key())+": "+lc.goLit(Select(val, has.Args[1]), u.Elem()))
				}
				has = has.Args[0]
			}
			return lc.typeStr(t) + "{" + strings.Join(es, ", ") + "}"
		}
	case *types.Interface:
		if ucs := unionCases[x.Sort]; ucs != nil && x.Op == "ctor" {
			for _, uc := range ucs {
				if uc.Ctor.Name == x.Name && len(x.Args) == 1 {
					if _, isP := uc.Typ.(*types.Pointer); isP {
						return lc.typeStr(t) + "(govcPtr(" + lc.goLit(x.Args[0], uc.Elem) + "))"
					}
					return lc.typeStr(t) + "(" + lc.goLit(x.Args[0], uc.Elem) + ")"
				}
			}
		}
		// nil, or an interface value the model leaves abstract
		return lc.typeStr(t) + "(nil)"
	case *types.Pointer:
		if x.Op == "ctor" && strings.HasPrefix(x.Name, "nil:") {
			return "(" + lc.typeStr(t) + ")(nil)"
		}
		if x.Op == "ctor" && strings.HasPrefix(x.Name, "ref:") {
			return "govcPtr(" + lc.goLit(x.Args[0], u.Elem()) + ")"
		}
	}
	return lc.fail("value %s of type %s is not replayable", x, t)
}

func (lc *litCtx) sliceElems(x *Term, elem types.Type) []string {
	ln := SliceLen(x)
	if ln.Op != "int" || !ln.Int.IsInt64() || ln.Int.Int64() > 1<<14 || ln.Int.Sign() < 0 {
		lc.fail("slice length is not a small constant")
		return nil
	}
	var es []string
	for i := int64(0); i < ln.Int.Int64(); i++ {
		es = append(es, lc.goLit(SliceAt(x, IntC(i)), elem))
	}
	return es
}

const replayHelpers = `
func govcPtr[T any](v T) *T { return &v }

func govcDump(v reflect.Value) string {
	switch v.Kind() {
	case reflect.Bool:
		if v.Bool() {
			return "true"
		}
		return "false"
	case reflect.Int, reflect.Int8, reflect.Int16, reflect.Int32, reflect.Int64:
		if v.Int() < 0 {
			return "(- " + strconv.FormatUint(uint64(-v.Int()), 10) + ")"
		}
		return strconv.FormatInt(v.Int(), 10)
	case reflect.Uint, reflect.Uint8, reflect.Uint16, reflect.Uint32, reflect.Uint64, reflect.Uintptr:
		return strconv.FormatUint(v.Uint(), 10)
	case reflect.Struct:
		s := "("
		for i := 0; i < v.NumField(); i++ {
			if i > 0 {
				s += " "
			}
			s += govcDump(v.Field(i))
		}
		return s + ")"
	case reflect.Array, reflect.Slice:
		if v.Kind() == reflect.Slice && v.IsNil() {
			return "nil"
		}
		s := "["
		for i := 0; i < v.Len(); i++ {
			if i > 0 {
				s += " "
			}
			s += govcDump(v.Index(i))
		}
		return s + "]"
	case reflect.String:
		s := "["
		for i := 0; i < v.Len(); i++ {
			if i > 0 {
				s += " "
			}
			s += strconv.Itoa(int(v.String()[i]))
		}
		return s + "]"
	case reflect.Pointer:
		if v.IsNil() {
			return "nil"
		}
		return "(ref " + govcDump(v.Elem()) + ")"
	case reflect.Interface:
		if v.IsNil() {
			return "0"
		}
		return "1"
	}
	return "?"
}
`

type ReplayMeta struct {
	Func       string   `json:"func"`
	Obligation string   `json:"obligation"`
	Property   string   `json:"property"`
	PkgDir     string   `json:"pkg_dir"`
	Model      string   `json:"model"`
	Inputs     []string `json:"inputs"`
}

type ReplayOutcome struct {
	Ran        bool
	Panicked   bool
	PanicMsg   string
	Reproduced bool
	Detail     string
	File       string
}

// buildReplay generates the test source for calling fn with the given constant inputs.
func (p *Program) buildReplay(fn *ssa.Function, inputs []*Term, meta *ReplayMeta) (string, error) {
	if fn.Pkg == nil {
		return "", fmt.Errorf("generic instance: no replay")
	}
	pkg := fn.Pkg.Pkg
	lc := &litCtx{pkg: pkg, imports: map[string]string{"reflect": "reflect", "strconv": "strconv", "testing": "testing", "fmt": "fmt"}}
	var decls, args []string
	var after []string
	for i, prm := range fn.Params {
		name := fmt.Sprintf("a%d", i)
		t := prm.Type()
		if pt, ok := t.Underlying().(*types.Pointer); ok {
			decls = append(decls, fmt.Sprintf("\t%s := %s", name, lc.goLit(inputs[i], pt.Elem())))
			args = append(args, "&"+name)
			after = append(after, fmt.Sprintf("\tfmt.Println(\"GOVC-PTR %d\", govcDump(reflect.ValueOf(%s)))", i, name))
		} else {
			decls = append(decls, fmt.Sprintf("\t%s := %s", name, lc.goLit(inputs[i], t)))
			args = append(args, name)
		}
	}
	if lc.err != nil {
		return "", lc.err
	}
	var call string
	if fn.Signature.Recv() != nil {
		recv := args[0]
		call = fmt.Sprintf("(%s).%s(%s)", recv, fn.Name(), strings.Join(args[1:], ", "))
	} else {
		call = fmt.Sprintf("%s(%s)", fn.Name(), strings.Join(args, ", "))
	}
	n := fn.Signature.Results().Len()
	var lhs []string
	var dumps []string
	for i := 0; i < n; i++ {
		lhs = append(lhs, fmt.Sprintf("r%d", i))
		rt := fn.Signature.Results().At(i).Type()
		if isErrorType(rt) {
			dumps = append(dumps, fmt.Sprintf("\tif r%d == nil { fmt.Println(\"GOVC-RES %d 0\") } else { fmt.Println(\"GOVC-RES %d 1\") }", i, i, i))
		} else {
			dumps = append(dumps, fmt.Sprintf("\tfmt.Println(\"GOVC-RES %d\", govcDump(reflect.ValueOf(r%d)))", i, i))
		}
	}
	var sb strings.Builder
	mj, _ := json.Marshal(meta)
	fmt.Fprintf(&sb, "// Code generated by govc (counterexample replay). DO NOT EDIT.\n// GOVC-META %s\n\npackage %s\n\nimport (\n", mj, pkg.Name())
	var ips []string
	for path := range lc.imports {
		ips = append(ips, path)
	}
	sort.Strings(ips)
	for _, ip := range ips {
		fmt.Fprintf(&sb, "\t%q\n", ip)
	}
	sb.WriteString(")\n")
	sb.WriteString(replayHelpers)
	sb.WriteString("\nfunc TestGovcReplay(t *testing.T) {\n")
	sb.WriteString("\tdefer func() {\n\t\tif r := recover(); r != nil {\n\t\t\tfmt.Println(\"GOVC-PANIC\", r)\n\t\t}\n\t}()\n")
	for _, d := range decls {
		sb.WriteString(d + "\n")
	}
	if n > 0 {
		fmt.Fprintf(&sb, "\t%s := %s\n", strings.Join(lhs, ", "), call)
	} else {
		fmt.Fprintf(&sb, "\t%s\n", call)
	}
	sb.WriteString("\tfmt.Println(\"GOVC-RETURNED\")\n")
	for _, d := range dumps {
		sb.WriteString(d + "\n")
	}
	for _, d := range after {
		sb.WriteString(d + "\n")
	}
	sb.WriteString("}\n")
	return sb.String(), nil
}

// buildReplayPair: the function is called on two input vectors and the digests are compared.
func (p *Program) buildReplayPair(fn *ssa.Function, a, b []*Term, pre *PreReplay, meta *ReplayMeta) (string, error) {
	pkg := fn.Pkg.Pkg
	lc := &litCtx{pkg: pkg, imports: map[string]string{"reflect": "reflect", "testing": "testing", "fmt": "fmt"}}
	var decls []string
	mkArgs := func(tag string, in []*Term) []string {
		var args []string
		for i, prm := range fn.Params {
			name := fmt.Sprintf("%s%d", tag, i)
			t := prm.Type()
			if pt, ok := t.Underlying().(*types.Pointer); ok {
				decls = append(decls, fmt.Sprintf("\t%s := %s", name, lc.goLit(in[i], pt.Elem())))
				args = append(args, "&"+name)
			} else {
				decls = append(decls, fmt.Sprintf("\t%s := %s", name, lc.goLit(in[i], t)))
				args = append(args, name)
			}
		}
		return args
	}
	argsA, argsB := mkArgs("a", a), mkArgs("b", b)
	if lc.err != nil {
		return "", lc.err
	}
	call := func(args []string) string {
		if fn.Signature.Recv() != nil {
			return fmt.Sprintf("(%s).%s(%s)", args[0], fn.Name(), strings.Join(args[1:], ", "))
		}
		return fmt.Sprintf("%s(%s)", fn.Name(), strings.Join(args, ", "))
	}
	proj := func(r string) string {
		if pre.Of == "" || pre.Of == "result" {
			return r
		}
		return strings.Replace(pre.Of, "result", r, 1)
	}
	var sb strings.Builder
	mj, _ := json.Marshal(meta)
	fmt.Fprintf(&sb, "// Code generated by govc (counterexample replay of a preimage obligation). DO NOT EDIT.\n// GOVC-META %s\n\npackage %s\n\nimport (\n", mj, pkg.Name())
	var ips []string
	for path := range lc.imports {
		ips = append(ips, path)
	}
	sort.Strings(ips)
	for _, ip := range ips {
		fmt.Fprintf(&sb, "\t%q\n", ip)
	}
	sb.WriteString(")\n")
	sb.WriteString("\nfunc govcPtr[T any](v T) *T { return &v }\n")
	sb.WriteString("\nfunc TestGovcReplay(t *testing.T) {\n")
	sb.WriteString("\tdefer func() {\n\t\tif r := recover(); r != nil {\n\t\t\tfmt.Println(\"GOVC-PANIC\", r)\n\t\t}\n\t}()\n")
	for _, d := range decls {
		sb.WriteString(d + "\n")
	}
	fmt.Fprintf(&sb, "\tra := %s\n\trb := %s\n", call(argsA), call(argsB))
	fmt.Fprintf(&sb, "\tif reflect.DeepEqual(%s, %s) {\n\t\tfmt.Println(\"GOVC-PRE SAME\")\n\t} else {\n\t\tfmt.Println(\"GOVC-PRE DIFF\")\n\t}\n", proj("ra"), proj("rb"))
	fmt.Fprintf(&sb, "\tfmt.Printf(\"digest A %%x\\ndigest B %%x\\n\", %s, %s)\n", proj("ra"), proj("rb"))
	sb.WriteString("}\n")
	return sb.String(), nil
}

// runReplay executes a replay file against the repository through an overlay.
func (p *Program) runReplay(file string, pkgDir string) (string, error) {
	abs := filepath.Join(p.Repo, pkgDir, "zz_govc_replay_test.go")
	ov := map[string]map[string]string{"Replace": {abs: file}}
	ovf := file + ".overlay.json"
	b, _ := json.Marshal(ov)
	os.WriteFile(ovf, b, 0o644)
	defer os.Remove(ovf)
	cmd := exec.Command("bash", "-c", fmt.Sprintf("ulimit -v 8000000; cd %q && timeout 100 go test -overlay %q -v -vet=off -count=1 -timeout 60s -run '^TestGovcReplay$' .", filepath.Join(p.Repo, pkgDir), ovf))
	var out bytes.Buffer
	cmd.Stdout = &out
	cmd.Stderr = &out
	err := cmd.Run()
	return out.String(), err
}

var rePanic = regexp.MustCompile(`(?m)^GOVC-PANIC (.*)$`)

// Replay tries to reproduce a failed obligation of function key on the real code.
func (p *Program) Replay(key string, o *Obligation, prop, outDir string) *ReplayOutcome {
	out := &ReplayOutcome{}
	fn := p.Funcs[key]
	con := p.Store.Funcs[key]
	if fn == nil || con == nil || o.Model == "" {
		out.Detail = "no model"
		return out
	}
	if fn.Pkg == nil || fn.TypeParams().Len() > 0 {
		out.Detail = "generic function: counterexample not replayed"
		return out
	}
	sx, err := parseSx(o.Model)
	if err != nil || len(sx) == 0 || !sx[0].IsL {
		out.Detail = "model not parseable"
		return out
	}
	vals := map[string]*Sx{}
	for _, pair := range sx[0].List {
		if pair.IsL && len(pair.List) == 2 {
			vals[pair.List[0].String()] = pair.List[1]
		}
	}
	renderMu.Lock()
	defer renderMu.Unlock()
	var inputs []*Term
	var inputStr []string
	for _, prm := range fn.Params {
		t := prm.Type()
		name := prm.Name()
		if pt, ok := t.Underlying().(*types.Pointer); ok {
			t = pt.Elem()
			name += "@entry"
		}
		mv, ok := vals[strings.Trim(quoteSym(name), "|")]
		var tm *Term
		if !ok {
			// input not mentioned by the model: any value will do
			var zerr error
			func() {
				defer func() {
					if r := recover(); r != nil {
						zerr = fmt.Errorf("%v", r)
					}
				}()
				tm = ZeroOf(t)
			}()
			if zerr != nil {
				out.Detail = "input " + name + " has unsupported type"
				return out
			}
		} else {
			tm, err = termFromModel(mv, t)
			if err != nil {
				out.Detail = "input " + name + ": " + err.Error()
				return out
			}
		}
		inputs = append(inputs, tm)
		inputStr = append(inputStr, name+" = "+tm.String())
	}
	pkgDir := strings.TrimPrefix(fn.Pkg.Pkg.Path(), modPath)
	pkgDir = strings.TrimPrefix(pkgDir, "/")
	meta := &ReplayMeta{Func: key, Obligation: o.Name, Property: prop, PkgDir: pkgDir, Model: o.Model, Inputs: inputStr}
	if o.Pre != nil {
		// second input vector
		var inputsB []*Term
		for i, prm := range fn.Params {
			t := prm.Type()
			if pt, ok := t.Underlying().(*types.Pointer); ok {
				t = pt.Elem()
			}
			mv, ok := vals[strings.Trim(quoteSym("pre!B!"+prm.Name()), "|")]
			if !ok {
				inputsB = append(inputsB, inputs[i])
				continue
			}
			tm, err := termFromModel(mv, t)
			if err != nil {
				out.Detail = "second input " + prm.Name() + ": " + err.Error()
				return out
			}
			inputsB = append(inputsB, tm)
			meta.Inputs = append(meta.Inputs, prm.Name()+"' = "+tm.String())
		}
		src, err := p.buildReplayPair(fn, inputs, inputsB, o.Pre, meta)
		if err != nil {
			out.Detail = "cannot build replay: " + err.Error()
			return out
		}
		os.MkdirAll(outDir, 0o755)
		file := filepath.Join(outDir, sanitize(o.Name)+"_test.go")
		os.WriteFile(file, []byte(src), 0o644)
		out.File = file
		res, _ := p.runReplay(file, pkgDir)
		switch {
		case strings.Contains(res, "GOVC-PANIC"):
			out.Ran = true
			out.Detail = "replay panicked: " + firstLines(res, 4)
		case strings.Contains(res, "GOVC-PRE SAME"):
			out.Ran = true
			if o.Pre.Kind == "covers" {
				out.Reproduced = true
				out.Detail = "two inputs that differ in the covered field give the same digest on the real code"
			} else {
				out.Detail = "digests equal (the candidate model is spurious)"
			}
		case strings.Contains(res, "GOVC-PRE DIFF"):
			out.Ran = true
			if o.Pre.Kind == "excludes" {
				out.Reproduced = true
				out.Detail = "changing only the excluded location changes the digest on the real code"
			} else {
				out.Detail = "digests differ (the candidate model is spurious)"
			}
		default:
			out.Detail = "replay did not run: " + firstLines(res, 12)
		}
		return out
	}
	src, err := p.buildReplay(fn, inputs, meta)
	if err != nil {
		out.Detail = "cannot build replay: " + err.Error()
		return out
	}
	if len(src) > 300000 {
		out.Detail = "counterexample too large to replay"
		return out
	}
	os.MkdirAll(outDir, 0o755)
	file := filepath.Join(outDir, sanitize(o.Name)+"_test.go")
	os.WriteFile(file, []byte(src), 0o644)
	out.File = file
	res, _ := p.runReplay(file, pkgDir)
	p.judgeReplay(fn, con, inputs, res, out)
	return out
}

func sanitize(s string) string {
	var sb strings.Builder
	for _, c := range s {
		if c >= 'a' && c <= 'z' || c >= 'A' && c <= 'Z' || c >= '0' && c <= '9' || c == '.' || c == '-' || c == '_' {
			sb.WriteRune(c)
		} else {
			sb.WriteByte('_')
		}
	}
	r := sb.String()
	if len(r) > 150 {
		r = r[:150] + sha256hex(s)[:8]
	}
	return r
}

// judgeReplay evaluates the contract on the concrete outcome.
func (p *Program) judgeReplay(fn *ssa.Function, con *Contract, inputs []*Term, res string, out *ReplayOutcome) {
	if !strings.Contains(res, "GOVC-RETURNED") && !strings.Contains(res, "GOVC-PANIC") {
		out.Detail = "replay did not run: " + firstLines(res, 12)
		return
	}
	out.Ran = true
	ex := &Exec{P: p, Unit: "replay", Inlined: map[string]bool{}, Used: map[string]bool{}, Trusted: map[string]bool{}}
	env := &SpecEnv{ex: ex, pkgPath: con.PkgPath, vars: map[string]Val{}, mem: Mem{}, old: Mem{}}
	cells := map[int]*Cell{}
	for i, prm := range fn.Params {
		t := prm.Type()
		if pt, ok := t.Underlying().(*types.Pointer); ok {
			c := &Cell{ID: 100000 + i, Typ: pt.Elem(), Name: prm.Name()}
			cells[i] = c
			env.old[c] = inputs[i]
			env.mem[c] = inputs[i]
			env.vars[prm.Name()] = PtrV{Cell: c, Elem: pt.Elem()}
		} else {
			env.vars[prm.Name()] = TV{inputs[i], t}
		}
	}
	entry := *env
	entry.mem = env.old
	evalB := func(e *SpecEnv, x *SExpr) (val bool, known bool) {
		t, err := e.EvalBool(x)
		if err != nil {
			return false, false
		}
		t = closedEval(t)
		if t.IsTrue() {
			return true, true
		}
		if t.IsFalse() {
			return false, true
		}
		return false, false
	}
	for _, cl := range con.Requires {
		if v, known := evalB(&entry, cl.Expr); known && !v {
			out.Detail = "model violates precondition " + cl.Label + " (spurious)"
			return
		}
	}
	panicOK, panicKnown := false, true
	if con.PanicsIf != nil {
		panicOK, panicKnown = evalB(&entry, con.PanicsIf.Expr)
	}
	if m := rePanic.FindStringSubmatch(res); m != nil {
		out.Panicked, out.PanicMsg = true, m[1]
		if con.MayPanic {
			out.Detail = "panicked (" + m[1] + ") but the contract allows panics"
			return
		}
		if panicKnown && !panicOK {
			out.Reproduced = true
			out.Detail = "real code panics (" + m[1] + ") on an input for which the contract forbids a panic"
		} else {
			out.Detail = "panicked (" + m[1] + ") as specified"
		}
		return
	}
	// returned normally
	if con.PanicsIf != nil && panicKnown && panicOK {
		out.Reproduced = true
		out.Detail = "real code returns normally on an input for which the contract requires a panic"
		return
	}
	rs := fn.Signature.Results()
	var results []Val
	for i := 0; i < rs.Len(); i++ {
		re := regexp.MustCompile(fmt.Sprintf(`(?m)^GOVC-RES %d (.*)$`, i))
		m := re.FindStringSubmatch(res)
		if m == nil {
			out.Detail = "missing result dump"
			return
		}
		sx, err := parseSx(m[1])
		if err != nil || len(sx) != 1 {
			out.Detail = "bad result dump"
			return
		}
		t, err := termFromDump(sx[0], rs.At(i).Type())
		if err != nil {
			out.Detail = "result not representable: " + err.Error()
			return
		}
		results = append(results, TV{t, rs.At(i).Type()})
	}
	for i, c := range cells {
		re := regexp.MustCompile(fmt.Sprintf(`(?m)^GOVC-PTR %d (.*)$`, i))
		m := re.FindStringSubmatch(res)
		if m == nil {
			continue
		}
		sx, err := parseSx(m[1])
		if err != nil || len(sx) != 1 {
			continue
		}
		t, err := termFromDump(sx[0], c.Typ)
		if err != nil {
			out.Detail = "pointer target not representable: " + err.Error()
			return
		}
		env.mem[c] = t
	}
	var resVal Val
	if len(results) == 1 {
		resVal = results[0]
	} else {
		resVal = TupleV(results)
	}
	bindResults(env.vars, fn, resVal)
	for _, l := range con.Lets {
		func() {
			defer func() { recover() }()
			env.vars[l.Label] = env.eval(l.Expr)
		}()
	}
	for _, cl := range con.Ensures {
		v, known := evalB(env, cl.Expr)
		if known && !v {
			out.Reproduced = true
			out.Detail = fmt.Sprintf("real code returns a result violating ensures %s: %s", cl.Label, cl.Src)
			return
		}
	}
	out.Detail = "real code satisfies the contract on this input"
}

func firstLines(s string, n int) string {
	ls := strings.Split(s, "\n")
	if len(ls) > n {
		ls = ls[:n]
	}
	return strings.Join(ls, " | ")
}

// closedEval decides a closed formula: the simplifier first, then z3.
func closedEval(t *Term) *Term {
	if t.IsTrue() || t.IsFalse() {
		return t
	}
	sc := &Script{Asserts: []*Term{Not(t)}}
	text := sc.Render()
	f, err := os.CreateTemp("", "govc-closed-*.smt2")
	if err != nil {
		return t
	}
	defer os.Remove(f.Name())
	f.WriteString(text)
	f.Close()
	outb, _ := exec.Command("z3-new", "-T:20", f.Name()).CombinedOutput()
	first := strings.TrimSpace(strings.SplitN(string(outb), "\n", 2)[0])
	if first == "unsat" {
		return TTrue
	}
	if first == "sat" {
		// closed formula: not valid means false
		sc2 := &Script{Asserts: []*Term{t}}
		f2, _ := os.CreateTemp("", "govc-closed-*.smt2")
		defer os.Remove(f2.Name())
		f2.WriteString(sc2.Render())
		f2.Close()
		ob, _ := exec.Command("z3-new", "-T:20", f2.Name()).CombinedOutput()
		if strings.TrimSpace(strings.SplitN(string(ob), "\n", 2)[0]) == "unsat" {
			return TFalse
		}
	}
	return t
}
