package main

import (
	"encoding/json"
	"flag"
	"fmt"
	"os"
	"sort"
	"strings"
)

func usage() {
	fmt.Fprintln(os.Stderr, `usage:
  govc verify [-repo DIR] [-keep] [-timeout MS] FUNCKEY...   verify functions, print obligations
  govc loops  [-repo DIR] FUNCKEY                           list loops and their ordinals
  govc check  [-repo DIR] PROP TIER                         run a property check, write evidence`)
	os.Exit(2)
}

func main() {
	os.Setenv("PATH", "/opt/veriftools/go1.26.8/bin:"+os.Getenv("PATH"))
	os.Setenv("GOTOOLCHAIN", "local")
	os.Setenv("GOFLAGS", "-mod=mod")
	os.Setenv("GOPROXY", "off")
	os.Setenv("GOSUMDB", "off")
	if len(os.Args) < 2 {
		usage()
	}
	switch os.Args[1] {
	case "verify":
		cmdVerify(os.Args[2:])
	case "loops":
		cmdLoops(os.Args[2:])
	case "check":
		cmdCheck(os.Args[2:])
	case "replay":
		cmdReplay(os.Args[2:])
	case "wire":
		cmdWire(os.Args[2:])
	default:
		usage()
	}
}

func verifRoot() string {
	if r := os.Getenv("VERIF_ROOT"); r != "" {
		return r
	}
	return "/verif"
}

func loadAll(repo string) *Program {
	p, err := LoadProgram(repo, "./...")
	if err != nil {
		fmt.Fprintln(os.Stderr, "load error:", err)
		os.Exit(2)
	}
	theProgram = p
	p.Store = NewStore()
	if err := p.Store.LoadTrustedDir(verifRoot() + "/trusted"); err != nil {
		fmt.Fprintln(os.Stderr, "trusted contracts:", err)
		os.Exit(2)
	}
	if err := p.Store.LoadRepoContracts(p); err != nil {
		fmt.Fprintln(os.Stderr, "contracts:", err)
		os.Exit(2)
	}
	return p
}

func cmdVerify(args []string) {
	fs := flag.NewFlagSet("verify", flag.ExitOnError)
	repo := fs.String("repo", "/repo", "repository")
	keep := fs.Bool("keep", false, "keep smt files")
	timeout := fs.Int("timeout", 10000, "per-obligation timeout ms")
	verbose := fs.Bool("v", false, "verbose")
	nosolve := fs.Bool("n", false, "do not solve; list obligations")
	fs.Parse(args)
	p := loadAll(*repo)
	var keys []string
	for _, a := range fs.Args() {
		found := false
		for k := range p.Store.Funcs {
			if k == a || shortName(k) == a || strings.HasSuffix(k, a) || strings.Contains(shortName(k), a) {
				keys = append(keys, k)
				found = true
			}
		}
		if !found {
			if _, ok := p.Funcs[a]; ok {
				keys = append(keys, a)
			} else {
				fmt.Fprintln(os.Stderr, "no such function/contract:", a)
			}
		}
	}
	sort.Strings(keys)
	cfg := &SolverCfg{WorkDir: verifRoot() + "/.work/dbg", TimeoutMS: *timeout, Jobs: 16, Keep: *keep}
	bad := 0
	for _, k := range keys {
		rep := p.VerifyFunc(k)
		if *nosolve {
			fmt.Printf("== %s: %d obligations\n", rep.Name, len(rep.Obls))
			for _, o := range rep.Obls {
				fmt.Println("   ", o.Name)
			}
			for _, o := range rep.OOS {
				fmt.Println("   out-of-subset:", o)
			}
			continue
		}
		SolveAll(rep.Obls, cfg)
		fmt.Printf("== %s (%s) ssa=%s\n", rep.Name, rep.Pos, rep.SSAHash)
		if rep.Err != "" {
			fmt.Println("   ERROR:", rep.Err)
			bad++
		}
		for _, o := range rep.OOS {
			fmt.Println("   out-of-subset:", o)
		}
		if *verbose {
			fmt.Println("   inlined:", rep.Inlined)
			fmt.Println("   used:", rep.Used)
		}
		for i, o := range rep.Obls {
			mark := "ok "
			if o.Status != "discharged" {
				mark = "!! "
				if o.Kind != "cover" || o.Status == "failed" {
					bad++
				} else {
					mark = "?? "
				}
			}
			if *verbose || o.Status != "discharged" {
				fmt.Printf("   %s%-70s %-10s %-8s %5dms %6dB  [o%05d] %s\n", mark, o.Name, o.Status, o.Solver, o.TimeMS, o.SMTSize, i, o.Pos)
				if o.Note != "" {
					fmt.Println("      note:", o.Note)
				}
				if o.Status == "failed" && o.Model != "" {
					m := o.Model; if len(m) > 700 { m = m[:700] + "..." }; fmt.Println("      model:", strings.ReplaceAll(m, "\n", "\n      "))
				}
			}
		}
		n := 0
		for _, o := range rep.Obls {
			if o.Status == "discharged" {
				n++
			}
		}
		fmt.Printf("   %d/%d discharged\n", n, len(rep.Obls))
	}
	if bad > 0 {
		os.Exit(1)
	}
}

func cmdLoops(args []string) {
	fs := flag.NewFlagSet("loops", flag.ExitOnError)
	repo := fs.String("repo", "/repo", "repository")
	fs.Parse(args)
	p := loadAll(*repo)
	for _, a := range fs.Args() {
		for k, fn := range p.Funcs {
			if k == a || shortName(k) == a {
				fr := &Frame{ex: &Exec{P: p}, fn: fn}
				if fn.Blocks == nil {
					continue
				}
				fr.findLoops()
				fmt.Println(k)
				for _, lp := range fr.loops {
					var phis []string
					for _, ph := range fr.headerPhis(lp) {
						phis = append(phis, ph.Comment)
					}
					fmt.Printf("  loop#%d header=b%d (%s) at %s blocks=%d phis=%v\n", lp.Ord, lp.Header.Index, lp.Header.Comment, p.Pos(lp.Pos), len(lp.Blocks), phis)
				}
			}
		}
	}
}

func cmdReplay(args []string) {
	fs := flag.NewFlagSet("replay", flag.ExitOnError)
	repo := fs.String("repo", "/repo", "repository")
	fs.Parse(args)
	if fs.NArg() != 1 {
		usage()
	}
	file := fs.Arg(0)
	b, err := os.ReadFile(file)
	if err != nil {
		fmt.Fprintln(os.Stderr, err)
		os.Exit(2)
	}
	if !strings.HasSuffix(file, "_test.go") {
		fmt.Print(string(b))
		fmt.Println("(no executable replay: the verifier produced no failing input for this obligation)")
		os.Exit(1)
	}
	var meta ReplayMeta
	for _, l := range strings.Split(string(b), "\n") {
		if strings.HasPrefix(l, "// GOVC-META ") {
			json.Unmarshal([]byte(strings.TrimPrefix(l, "// GOVC-META ")), &meta)
		}
	}
	if meta.Func == "" {
		fmt.Fprintln(os.Stderr, "no GOVC-META header")
		os.Exit(2)
	}
	p := loadAll(*repo)
	fn, con := p.Funcs[meta.Func], p.Store.Funcs[meta.Func]
	if fn == nil || con == nil {
		fmt.Fprintln(os.Stderr, "function or contract not found:", meta.Func)
		os.Exit(2)
	}
	// recover inputs from the model
	o := &Obligation{Name: meta.Obligation, Model: meta.Model}
	dir, _ := os.MkdirTemp("", "govc-replay-")
	defer os.RemoveAll(dir)
	out := p.Replay(meta.Func, o, meta.Property, dir)
	fmt.Printf("obligation: %s\ninputs: %v\noutcome: %s\n", meta.Obligation, meta.Inputs, out.Detail)
	if out.Reproduced {
		fmt.Printf("VIOLATION property=%s replay=%s\n", meta.Property, file)
		os.Exit(1)
	}
	os.Exit(0)
}


func cmdWire(args []string) {
	fs := flag.NewFlagSet("wire", flag.ExitOnError)
	repo := fs.String("repo", "/repo", "repository")
	pkg := fs.String("pkg", "", "package suffix filter")
	verbose := fs.Bool("v", false, "verbose")
	keep := fs.Bool("keep", false, "keep smt files")
	fs.Parse(args)
	p := loadAll(*repo)
	cfg := &SolverCfg{WorkDir: verifRoot() + "/.work/dbg", TimeoutMS: 10000, Jobs: 16, Keep: *keep}
	total, good := 0, 0
	for _, ct := range p.codecTypes(*pkg) {
		match := fs.NArg() == 0
		for _, a := range fs.Args() {
			if strings.HasPrefix(a, "=") {
				if strings.HasSuffix(typeKey(ct.Named), "."+a[1:]) {
					match = true
				}
			} else if strings.Contains(typeKey(ct.Named), a) {
				match = true
			}
		}
		if !match || wireSkip[typeKey(ct.Named)] {
			continue
		}
		rep := p.WireCheck(ct)
		if os.Getenv("GOVC_NOSOLVE") != "" {
			cnt := map[string]int{}
			for _, o := range rep.Obls {
				parts := strings.Split(o.Name, "/")
				k := strings.Join(parts[:min(len(parts), 4)], "/")
				cnt[k]++
			}
			fmt.Println(rep.Name, len(rep.Obls), cnt)
			continue
		}
		SolveAll(rep.Obls, cfg)
		nd := 0
		for _, o := range rep.Obls {
			if o.Status == "discharged" {
				nd++
			}
		}
		total += len(rep.Obls)
		good += nd
		fmt.Printf("== %s: %d/%d %s\n", rep.Name, nd, len(rep.Obls), rep.Err)
		for _, o := range rep.OOS {
			fmt.Println("   out-of-subset:", o)
		}
		for _, o := range rep.Obls {
			if o.Status != "discharged" || *verbose {
				fmt.Printf("   %-3s %-60s %-10s %s %dms\n", map[bool]string{true: "ok", false: "!!"}[o.Status == "discharged"], o.Name, o.Status, o.Solver, o.TimeMS)
			}
		}
	}
	fmt.Printf("total %d/%d\n", good, total)
}
