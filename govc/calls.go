package main

import (
	"fmt"
	"go/types"
	"math/big"
	"strings"

	"golang.org/x/tools/go/ssa"
)

const maxInlineDepth = 12

func (fr *Frame) setRes(v ssa.Value, r Val) {
	if v != nil {
		fr.vals[v] = r
	}
}

func (fr *Frame) execCall(v ssa.Value, c *ssa.CallCommon, in ssa.Instruction) {
	ex := fr.ex
	var args []Val
	for _, a := range c.Args {
		args = append(args, fr.get(a))
	}
	if c.IsInvoke() {
		recv := fr.get(c.Value)
		if iv, ok := recv.(IfaceV); ok && iv.Dyn != nil {
			ms := ex.P.SSA.MethodSets.MethodSet(iv.DynTyp)
			if sel := ms.Lookup(c.Method.Pkg(), c.Method.Name()); sel != nil {
				if f := ex.P.SSA.MethodValue(sel); f != nil {
					fr.callFunc(v, f, append([]Val{iv.Dyn}, args...), nil, in)
					return
				}
			}
		}
		if tv, ok := recv.(TV); ok && unionCases[tv.T.Sort] != nil && c.Signature().Results().Len() == 0 {
			if fr.invokeUnion(tv, c, args, in) {
				return
			}
		}
		// a method of a module interface declared `abstract` in the contracts: an uninterpreted
		// function of the receiver (the implementation behind the interface is deterministic)
		if nt, ok := c.Value.Type().(*types.Named); ok && nt.Obj().Pkg() != nil {
			key := "(" + nt.Obj().Pkg().Path() + "." + nt.Obj().Name() + ")." + c.Method.Name()
			if con := ex.P.Store.Funcs[key]; con != nil && con.Abstract {
				if rt, ok := fr.term(recv); ok {
					ts := []*Term{rt}
					okAll := true
					for _, a := range args {
						t, ok := fr.term(a)
						if !ok {
							okAll = false
						}
						ts = append(ts, t)
					}
					if okAll {
						ex.Used[key] = true
						fr.setRes(v, ex.abstractApp(key, ts))
						return
					}
				}
			}
		}
		fr.externalResult(v, c, in, "interface method "+c.Method.FullName())
		return
	}
	switch callee := c.Value.(type) {
	case *ssa.Builtin:
		fr.execBuiltin(v, callee, c, args, in)
		return
	case *ssa.Function:
		fr.callFunc(v, callee, args, nil, in)
		return
	case *ssa.MakeClosure:
		var bind []Val
		for _, b := range callee.Bindings {
			bind = append(bind, fr.get(b))
		}
		fr.callFunc(v, callee.Fn.(*ssa.Function), args, bind, in)
		return
	}
	if fv, ok := fr.get(c.Value).(FuncV); ok {
		fr.callFunc(v, fv.Fn, args, fv.Bind, in)
		return
	}
	fr.externalResult(v, c, in, "dynamic call")
}

// externalResult models a call whose callee is unknown: fresh results, no effects assumed on cells
// (recorded as out-of-subset so that nothing proved depends on it silently).
func (fr *Frame) externalResult(v ssa.Value, c *ssa.CallCommon, in ssa.Instruction, why string) {
	fr.ex.oos("%s: %s at %s", shortName(fr.fn.String()), why, fr.pos(in))
	if c != nil {
		// an unknown callee may write through every pointer it is handed (directly, inside an
		// interface, or in a variadic argument list): that memory is unknown afterwards
		var args []Val
		for _, a := range c.Args {
			args = append(args, fr.get(a))
		}
		fr.havocEscaped(args)
	}
	if v == nil {
		return
	}
	fr.vals[v] = fr.freshResults(c.Signature().Results(), "ext")
}

// havocEscaped makes the memory reachable from the given values unknown.
func (fr *Frame) havocEscaped(args []Val) {
	seen := map[string]bool{}
	var visit func(v Val, depth int)
	visit = func(v Val, depth int) {
		if depth > 4 {
			return
		}
		switch x := v.(type) {
		case IfaceV:
			visit(x.Dyn, depth+1)
		case TupleV:
			for _, e := range x {
				visit(e, depth+1)
			}
		case PtrV:
			if x.Cell == nil || x.Cell.Ghost != nil {
				return
			}
			k := cellKey(x)
			if seen[k] {
				return
			}
			seen[k] = true
			if isEncoderPtr(types.NewPointer(x.Elem)) {
				return
			}
			func() {
				defer func() { recover() }()
				if nv := fr.freshOfType(x.Elem, "ext:"+x.Cell.Name); nv != nil {
					fr.store(x, nv)
				}
			}()
			for _, al := range fr.ex.ptrAliases {
				if al.cell == x.Cell {
					visit(al.target, depth+1)
				}
			}
		case SliceV:
			if x.Cell == nil {
				return
			}
			pk := cellKey(PtrV{Cell: x.Cell, Path: x.Path})
			if seen["s"+pk] {
				return
			}
			seen["s"+pk] = true
			// interface / pointer elements kept on the side (variadic argument lists)
			for key, val := range fr.ex.valCells {
				if strings.HasPrefix(key, pk+"[") || strings.HasPrefix(key, pk+".") {
					visit(val, depth+1)
				}
			}
			for _, al := range fr.ex.ptrAliases {
				if al.cell == x.Cell {
					visit(al.target, depth+1)
				}
			}
			if x.Cell.Name == "varargs" {
				return
			}
			func() {
				defer func() { recover() }()
				old := fr.readPath(x.Cell, x.Path)
				nv := Fresh("ext:"+x.Cell.Name, old.Sort)
				if len(x.Path) == 0 && x.Cell.Dyn {
					fr.mem[x.Cell] = nv
				} else {
					fr.store(PtrV{Cell: x.Cell, Path: x.Path}, nv)
				}
			}()
		}
	}
	for _, a := range args {
		visit(a, 0)
	}
}

func (fr *Frame) freshResults(res *types.Tuple, prefix string) Val {
	mkOne := func(t types.Type) Val {
		var r Val = OpaqueV{"result of unsupported type " + t.String(), t}
		func() {
			defer func() { recover() }()
			r = TV{Typed(Fresh(prefix, SortOf(t)), t), t}
		}()
		return r
	}
	switch res.Len() {
	case 0:
		return TupleV{}
	case 1:
		return mkOne(res.At(0).Type())
	}
	var tup TupleV
	for i := 0; i < res.Len(); i++ {
		tup = append(tup, mkOne(res.At(i).Type()))
	}
	return tup
}

func (fr *Frame) callFunc(v ssa.Value, f *ssa.Function, args []Val, bind []Val, in ssa.Instruction) {
	ex := fr.ex
	fr.callAsserts(args, in)
	key := f.String()
	if f.Origin() != nil {
		// generic instance: contracts are keyed by the origin
		if _, ok := ex.P.Store.Funcs[key]; !ok {
			key = f.Origin().String()
		}
	}
	if !ex.kernelMode {
		if r, ok := fr.wireNative(f, args, in); ok {
			fr.setRes(v, r)
			return
		}
		if r, ok := fr.hashNative(f, args, in); ok {
			fr.setRes(v, r)
			return
		}
	}
	if r, ok := fr.nativeCall(f, args, in); ok {
		fr.setRes(v, r)
		return
	}
	con := ex.P.Store.Funcs[key]
	if con != nil && con.Abstract && ex.Con != nil {
		for _, cn := range ex.Con.Concrete {
			if cn == shortName(key) {
				con = nil // the unit under verification asks for the callee's body
			}
		}
	}
	if con != nil && con.Abstract {
		var ts []*Term
		for _, a := range args {
			t, ok := fr.term(a)
			if !ok {
				fr.externalResult(v, callCommon(in), in, "abstract call with unsupported argument")
				return
			}
			ts = append(ts, t)
		}
		ex.Used[key] = true
		res := ex.abstractApp(key, ts)
		if len(con.Ensures) > 0 || len(con.Requires) > 0 || con.PanicsIf != nil {
			fr.applyContractRes(v, f, con, args, in, res)
			return
		}
		fr.setRes(v, res)
		return
	}
	if con != nil && !con.Inline && (con.Trusted || len(con.Ensures) > 0 || len(con.Requires) > 0 || con.PanicsIf != nil || len(con.Modifies) > 0) {
		fr.applyContract(v, f, con, args, in)
		return
	}
	if f.Blocks == nil || f.Pkg == nil || !strings.HasPrefix(f.Pkg.Pkg.Path(), modPath) {
		if f.Pkg == nil && f.Blocks != nil && f.Origin() != nil && f.Origin().Pkg != nil && strings.HasPrefix(f.Origin().Pkg.Pkg.Path(), modPath) {
			// instantiated generic of the module: fall through to inlining
		} else if f.Pkg == nil && f.Blocks != nil && f.Parent() != nil && f.Parent().Pkg != nil && strings.HasPrefix(f.Parent().Pkg.Pkg.Path(), modPath) {
			// closure of a module function
		} else if f.Pkg == nil && f.Blocks != nil && (strings.HasPrefix(f.Synthetic, "wrapper for") || strings.HasPrefix(f.Synthetic, "bound method wrapper for")) && strings.Contains(f.String(), modPath) {
			// pointer-receiver wrapper of a value method of the module: its body calls the method
		} else {
			fr.externalResult(v, callCommon(in), in, "call to external function without contract: "+shortName(f.String()))
			return
		}
	}
	if ex.depth >= maxInlineDepth || ex.onStack(f) {
		fr.externalResult(v, callCommon(in), in, "recursive or too deep inlining of "+shortName(f.String()))
		return
	}
	// inline
	ex.Inlined[shortName(f.String())] = true
	ex.inlinedFns = append(ex.inlinedFns, f)
	sub := &Frame{ex: ex, fn: f, con: con, prefix: fr.site(in) + "/", inheritSeg: fr.curSeg()}
	ex.stack = append(ex.stack, f)
	ex.depth++
	sub.run(args, bind, fr.mem, fr.cur)
	ex.depth--
	ex.stack = ex.stack[:len(ex.stack)-1]
	if len(sub.rets) == 0 {
		fr.cur = TFalse
		return
	}
	var gs []*Term
	var ms []Mem
	for _, r := range sub.rets {
		gs = append(gs, r.guard)
		ms = append(ms, r.mem)
	}
	fr.mem = mergeMem(gs, ms).clone()
	fr.cur = Or(gs...)
	n := f.Signature.Results().Len()
	if v != nil {
		if n == 1 {
			var vs []Val
			for _, r := range sub.rets {
				vs = append(vs, r.vals[0])
			}
			fr.vals[v] = mergeVals(gs, vs)
		} else {
			tup := make(TupleV, n)
			for i := 0; i < n; i++ {
				var vs []Val
				for _, r := range sub.rets {
					vs = append(vs, r.vals[i])
				}
				tup[i] = mergeVals(gs, vs)
			}
			fr.vals[v] = tup
		}
	}
}

func callCommon(in ssa.Instruction) *ssa.CallCommon {
	if ci, ok := in.(ssa.CallInstruction); ok {
		return ci.Common()
	}
	return nil
}

func (ex *Exec) onStack(f *ssa.Function) bool {
	for _, s := range ex.stack {
		if s == f {
			return true
		}
	}
	return false
}

// calleeEnv builds the specification environment of a callee at a call site.
func (fr *Frame) calleeEnv(f *ssa.Function, con *Contract, args []Val) *SpecEnv {
	env := &SpecEnv{ex: fr.ex, fr: fr, pkgPath: con.PkgPath, vars: map[string]Val{}, mem: fr.mem, old: fr.mem}
	for i, p := range f.Params {
		if i < len(args) {
			env.vars[p.Name()] = args[i]
		}
	}
	return env
}

func (fr *Frame) applyContract(v ssa.Value, f *ssa.Function, con *Contract, args []Val, in ssa.Instruction) {
	fr.applyContractRes(v, f, con, args, in, nil)
}

func (fr *Frame) applyContractRes(v ssa.Value, f *ssa.Function, con *Contract, args []Val, in ssa.Instruction, given Val) {
	ex := fr.ex
	ex.Used[con.Key] = true
	if con.Trusted {
		ex.Trusted[con.Key] = true
	}
	site := fr.site(in)
	env := fr.calleeEnv(f, con, args)
	pre := fr.mem.clone()
	env.mem, env.old = pre, pre
	for _, cl := range con.Requires {
		env.quantInst = true
		t, err := env.EvalBool(cl.Expr)
		env.quantInst = false
		if err != nil {
			ex.oos("%s: cannot evaluate precondition of %s: %v", shortName(fr.fn.String()), shortName(con.Key), err)
			continue
		}
		ex.oblige(site+"/pre:"+cl.Label, "pre", fr.pos(in), fr.cur, t)
	}
	if con.PanicsIf != nil {
		t, err := env.EvalBool(con.PanicsIf.Expr)
		if err != nil {
			ex.oos("%s: cannot evaluate panics-iff of %s: %v", shortName(fr.fn.String()), shortName(con.Key), err)
		} else {
			fr.safety(in, "no-panic", Not(t))
		}
	}
	// frame: havoc what the callee may modify
	for _, m := range con.Modifies {
		fr.havocTarget(f, m, args, in)
	}
	// results
	res := given
	if res == nil {
		res = fr.freshResults(f.Signature.Results(), "r:"+shortFuncName(f))
		if con.Trusted && f.Signature.Results().Len() == 1 {
			// a trusted callee that returns a pointer to a struct of the module: the pointee is
			// modelled as a cell of its own with unknown content, so that what the caller then
			// writes through the pointer is tracked (assumed: it does not alias memory the
			// caller reads afterwards through another path)
			if pt, ok := f.Signature.Results().At(0).Type().Underlying().(*types.Pointer); ok {
				if _, isStruct := pt.Elem().Underlying().(*types.Struct); isStruct {
					func() {
						defer func() { recover() }()
						c := ex.newCell(pt.Elem(), "pointee:"+shortFuncName(f))
						if init := fr.freshOfType(pt.Elem(), "pointee:"+shortFuncName(f)); init != nil {
							fr.mem[c] = init
							res = PtrV{Cell: c, Elem: pt.Elem()}
							ex.Trusted["pointer returned by "+shortName(con.Key)+" modelled as a separate cell"] = true
						}
					}()
				}
			}
		}
	}
	if sp := ex.split; sp.on && fr.top && fmt.Sprintf("%s#%d", fr.siteKey(in), fr.ord[in]) == sp.sp.Site {
		if tv, ok := res.(TV); ok && tv.T.Sort == SInt {
			if sp.rest {
				ex.assume(fr.cur, Or(Lt(tv.T, IntC(int64(sp.sp.Lo))), Gt(tv.T, IntC(int64(sp.sp.Hi)))))
			} else {
				res = TV{IntC(int64(sp.k)), tv.Typ}
			}
		}
	}
	post := &SpecEnv{ex: ex, fr: fr, pkgPath: con.PkgPath, vars: map[string]Val{}, mem: fr.mem, old: pre}
	for k, val := range env.vars {
		post.vars[k] = val
	}
	bindResults(post.vars, f, res)
	// ghost (universally quantified) variables of the callee's contract
	var ghostVars []*Term
	for _, g := range con.Ghosts {
		gt, err := ex.P.resolveTypeExpr(con.PkgPath, g.Type)
		if err != nil {
			ex.oos("ghost %s: %v", g.Name, err)
			continue
		}
		ex.ghostCtr++
		var gs *Term
		if gt == nil {
			gs = Sym(fmt.Sprintf("$g!%s!%d", g.Name, ex.ghostCtr), SInt)
			post.vars[g.Name] = mathInt(gs)
		} else {
			gs = Sym(fmt.Sprintf("$g!%s!%d", g.Name, ex.ghostCtr), SortOf(gt))
			post.vars[g.Name] = TV{gs, gt}
		}
		ghostVars = append(ghostVars, gs)
	}
	for _, l := range con.Lets {
		func() {
			defer func() {
				if r := recover(); r != nil {
					if se, ok := r.(specErr); ok {
						ex.oos("%s: let %s of %s: %s", shortName(fr.fn.String()), l.Label, shortName(con.Key), se.msg)
						return
					}
					panic(r)
				}
			}()
			post.vars[l.Label] = post.eval(l.Expr)
		}()
	}
	for _, cl := range con.Ensures {
		t, err := post.EvalBool(cl.Expr)
		if err != nil {
			ex.oos("%s: cannot evaluate postcondition of %s: %v", shortName(fr.fn.String()), shortName(con.Key), err)
			continue
		}
		if len(ghostVars) > 0 && dependsOnAny(t, ghostVars) {
			t = Forall(ghostVars, t)
		}
		ex.assume(fr.cur, t)
	}
	fr.setRes(v, res)
}

func dependsOnAny(t *Term, vs []*Term) bool {
	for _, v := range vs {
		if dependsOn(t, v) {
			return true
		}
	}
	return false
}

func bindResults(vars map[string]Val, f *ssa.Function, res Val) {
	rs := f.Signature.Results()
	if tup, ok := res.(TupleV); ok {
		vars["result"] = tup
		for i, r := range tup {
			vars[fmt.Sprintf("result%d", i)] = r
			if i < rs.Len() && rs.At(i).Name() != "" && rs.At(i).Name() != "_" {
				vars[rs.At(i).Name()] = r
			}
		}
		return
	}
	vars["result"] = res
	vars["result0"] = res
	if rs.Len() == 1 && rs.At(0).Name() != "" && rs.At(0).Name() != "_" {
		vars[rs.At(0).Name()] = res
	}
}

// havocTarget: `modifies *p`, `modifies p` (pointer or slice parameter contents)
func (fr *Frame) havocTarget(f *ssa.Function, target string, args []Val, in ssa.Instruction) {
	name := strings.TrimPrefix(target, "*")
	field := ""
	if j := strings.Index(name, "."); j >= 0 {
		name, field = name[:j], name[j+1:]
	}
	for i, p := range f.Params {
		if p.Name() != name || i >= len(args) {
			continue
		}
		switch a := args[i].(type) {
		case PtrV:
			path := a.Path
			elem := a.Elem
			if field != "" {
				for _, fname := range strings.Split(field, ".") {
					fp, ft, ok := fieldPathByName(elem, fname)
					if !ok {
						fr.ex.oos("modifies %s: no such field", target)
						return
					}
					for _, fi := range fp {
						path = append(append([]PathEl{}, path...), PathEl{Field: fi})
					}
					elem = ft
				}
			}
			nv := fr.freshOfType(elem, "havoc:"+name)
			if nv == nil {
				fr.ex.oos("modifies %s: unsupported type", target)
				return
			}
			fr.store(PtrV{Cell: a.Cell, Path: path, Elem: elem}, nv)
		case SliceV:
			// contents of the window are havoced
			old := fr.readPath(a.Cell, a.Path)
			nv := Fresh("havoc:"+name, old.Sort)
			// elements outside [Lo,Hi) keep their value: expressed as assumption
			k := Sym("$k!frame", SInt)
			fr.ex.assume(fr.cur, Forall([]*Term{k}, Implies(Or(Lt(k, a.Lo), Ge(k, a.Hi)), Eq(Select(nv, k), Select(old, k)))))
			if len(a.Path) == 0 && a.Cell.Dyn {
				fr.mem[a.Cell] = nv
			} else {
				fr.store(PtrV{Cell: a.Cell, Path: a.Path}, nv)
			}
		default:
			if tv, ok := args[i].(TV); ok && isSliceSort(tv.T.Sort) && fr.modifiesSliceParam() {
				fr.ex.note("%s: bytes written by a callee into a slice parameter are not tracked inside the body (the contract's modifies clause havocs it at call sites)", shortName(fr.fn.String()))
				return
			}
			fr.ex.oos("%s: modifies %s on a value that is not a local cell (%T) at %s", shortName(fr.fn.String()), target, args[i], fr.pos(in))
		}
		return
	}
	fr.ex.oos("modifies %s: no such parameter", target)
}

// nativeCall: functions modelled directly by the executor.
func (fr *Frame) nativeCall(f *ssa.Function, args []Val, in ssa.Instruction) (Val, bool) {
	ex := fr.ex
	name := f.String()
	switch name {
	case "fmt.Errorf", "errors.New":
		ex.errSite++
		return TV{IntC(int64(1000 + ex.errSite)), f.Signature.Results().At(0).Type()}, true
	case "fmt.Sprintf", "fmt.Sprint":
		t := f.Signature.Results().At(0).Type()
		return TV{Fresh("sprintf", SortOf(t)), t}, true
	case "(encoding/binary.bigEndian).Uint64", "(encoding/binary.littleEndian).Uint64":
		// T4: positional value of 8 bytes
		bt, ok := fr.term(args[1])
		if !ok {
			return nil, false
		}
		fr.safety(in, "bounds", Ge(SliceLen(bt), IntC(8)))
		var parts []*Term
		for k := 0; k < 8; k++ {
			sh := 8 * (7 - k)
			if strings.Contains(name, "little") {
				sh = 8 * k
			}
			parts = append(parts, Mul(IntB(Pow2(sh)), Typed(SliceAt(bt, IntC(int64(k))), types.Typ[types.Byte])))
		}
		ex.Trusted["encoding/binary.ByteOrder.Uint64 (positional value of 8 bytes)"] = true
		return TV{WithRange(Add(parts...), big.NewInt(0), new(big.Int).Sub(Pow2(64), big.NewInt(1))), types.Typ[types.Uint64]}, true
	case "(encoding/binary.bigEndian).PutUint64", "(encoding/binary.littleEndian).PutUint64":
		sv, ok := args[1].(SliceV)
		vt, ok2 := fr.term(args[2])
		if !ok || !ok2 {
			return nil, false
		}
		fr.safety(in, "bounds", Ge(Sub(sv.Hi, sv.Lo), IntC(8)))
		var parts []*Term
		for k := 0; k < 8; k++ {
			bk := WithRange(Fresh("byte", SInt), big.NewInt(0), big.NewInt(255))
			sh := 8 * (7 - k)
			if strings.Contains(name, "little") {
				sh = 8 * k
			}
			parts = append(parts, Mul(IntB(Pow2(sh)), bk))
			path := append(append([]PathEl{}, sv.Path...), PathEl{IsIdx: true, Idx: Add(sv.Lo, IntC(int64(k)))})
			fr.store(PtrV{Cell: sv.Cell, Path: path, Elem: types.Typ[types.Byte]}, bk)
		}
		ex.assume(fr.cur, Eq(Add(parts...), vt))
		ex.Trusted["encoding/binary.ByteOrder.PutUint64 (writes the 8 bytes whose positional value is v)"] = true
		return TupleV{}, true
	case "io.ReadFull":
		// io.ReadFull(&lr, buf) on an *io.LimitedReader held in a local cell: reads k bytes,
		// 0 <= k <= min(len(buf), max(lr.N,0)); lr.N -= k; err == nil iff k == len(buf).
		// Assumes the wrapped reader honours the io.Reader contract (0 <= n <= len(p)).
		iv, ok := args[0].(IfaceV)
		if !ok {
			return nil, false
		}
		pv, ok := iv.Dyn.(PtrV)
		sv, ok2 := args[1].(SliceV)
		if !ok || !ok2 || typeKey(pv.Elem) != "io.LimitedReader" {
			return nil, false
		}
		fp, ft, ok := fieldPathByName(pv.Elem, "N")
		if !ok {
			return nil, false
		}
		npath := append([]PathEl{}, pv.Path...)
		for _, fi := range fp {
			npath = append(npath, PathEl{Field: fi})
		}
		np := PtrV{Cell: pv.Cell, Path: npath, Elem: ft}
		N := fr.load(np)
		ln := Sub(sv.Hi, sv.Lo)
		k := Fresh("read", SInt)
		ex.assume(fr.cur, And(Le(IntC(0), k), Le(k, ln), Or(Le(k, N), Eq(k, IntC(0)))))
		fr.store(np, Sub(N, k))
		old := fr.readPath(sv.Cell, sv.Path)
		nv := Fresh("havoc:readbuf", old.Sort)
		kk := Sym("$k!frame", SInt)
		ex.assume(fr.cur, Forall([]*Term{kk}, Implies(Or(Lt(kk, sv.Lo), Ge(kk, sv.Hi)), Eq(Select(nv, kk), Select(old, kk)))))
		ex.assume(fr.cur, Forall([]*Term{kk}, And(Le(IntC(0), Select(nv, kk)), Le(Select(nv, kk), IntC(255)))))
		if len(sv.Path) == 0 && sv.Cell.Dyn {
			fr.mem[sv.Cell] = nv
		} else {
			fr.store(PtrV{Cell: sv.Cell, Path: sv.Path}, nv)
		}
		errT := types.Universe.Lookup("error").Type()
		ex.errSite++
		ex.Trusted["io.ReadFull on io.LimitedReader (reads k <= min(len(buf), N) bytes, N -= k, err == nil iff k == len(buf); wrapped reader honours io.Reader)"] = true
		return TupleV{TV{k, types.Typ[types.Int]}, TV{Ite(Eq(k, ln), IntC(0), IntC(int64(1000 + ex.errSite))), errT}}, true
	case "bytes.Compare":
		at, ok1 := fr.term(args[0])
		bt, ok2 := fr.term(args[1])
		if !ok1 || !ok2 {
			return nil, false
		}
		la, lb := SliceLen(at), SliceLen(bt)
		if la.Op == "int" && lb.Op == "int" && la.Int.Cmp(lb.Int) == 0 && la.Int.Int64() <= 64 {
			n := int(la.Int.Int64())
			var pa, pb []*Term
			for k := 0; k < n; k++ {
				w := IntB(Pow2(8 * (n - 1 - k)))
				pa = append(pa, Mul(w, Typed(SliceAt(at, IntC(int64(k))), types.Typ[types.Byte])))
				pb = append(pb, Mul(w, Typed(SliceAt(bt, IntC(int64(k))), types.Typ[types.Byte])))
			}
			va, vb := Add(pa...), Add(pb...)
			ex.Trusted["bytes.Compare (lexicographic order; on equal lengths the order of the big-endian values)"] = true
			return TV{Ite(Lt(va, vb), IntC(-1), Ite(Eq(va, vb), IntC(0), IntC(1))), types.Typ[types.Int]}, true
		}
	}
	return nil, false
}

func (fr *Frame) execBuiltin(v ssa.Value, b *ssa.Builtin, c *ssa.CallCommon, args []Val, in ssa.Instruction) {
	switch b.Name() {
	case "len", "cap":
		if mv, ok := args[0].(MapV); ok {
			args[0] = TV{fr.mem[mv.Cell], mv.Typ}
		}
		switch a := args[0].(type) {
		case SliceV:
			if b.Name() == "cap" {
				fr.setRes(v, TV{Sub(a.Cap, a.Lo), types.Typ[types.Int]})
			} else {
				fr.setRes(v, TV{Sub(a.Hi, a.Lo), types.Typ[types.Int]})
			}
			return
		case TV:
			switch u := c.Args[0].Type().Underlying().(type) {
			case *types.Slice, *types.Basic:
				_ = u
				if b.Name() == "cap" {
					// capacity is not modelled precisely: cap >= len
					r := Fresh("cap", SInt)
					fr.ex.assume(fr.cur, And(Ge(r, SliceLen(a.T)), Le(r, IntB(maxLen))))
					fr.setRes(v, TV{r, types.Typ[types.Int]})
				} else {
					fr.setRes(v, TV{SliceLen(a.T), types.Typ[types.Int]})
				}
				return
			case *types.Map:
				fr.setRes(v, TV{WithRange(SelField(a.T.Sort.Ctors[0], 2, a.T), big.NewInt(0), maxLen), types.Typ[types.Int]})
				return
			case *types.Array:
				fr.setRes(v, TV{IntC(u.Len()), types.Typ[types.Int]})
				return
			case *types.Pointer:
				if at, ok := u.Elem().Underlying().(*types.Array); ok {
					fr.setRes(v, TV{IntC(at.Len()), types.Typ[types.Int]})
					return
				}
			}
		case PtrV:
			if at, ok := a.Elem.Underlying().(*types.Array); ok {
				fr.setRes(v, TV{IntC(at.Len()), types.Typ[types.Int]})
				return
			}
		case ValPtr:
			if at, ok := a.Elem.Underlying().(*types.Array); ok {
				fr.setRes(v, TV{IntC(at.Len()), types.Typ[types.Int]})
				return
			}
		}
		if v != nil {
			fr.opaque(v, "len of unsupported value")
		}
	case "append":
		fr.execAppend(v, c, args, in)
	case "copy":
		fr.execCopy(v, c, args, in)
	case "min", "max":
		ta, ok1 := fr.term(args[0])
		tb, ok2 := fr.term(args[1])
		if ok1 && ok2 && ta.Sort == SInt && len(args) == 2 {
			if b.Name() == "min" {
				fr.setRes(v, TV{Typed(Ite(Le(ta, tb), ta, tb), v.Type()), v.Type()})
			} else {
				fr.setRes(v, TV{Typed(Ite(Ge(ta, tb), ta, tb), v.Type()), v.Type()})
			}
			return
		}
		if v != nil {
			fr.opaque(v, "min/max of unsupported values")
		}
	case "ssa:wrapnilchk":
		fr.setRes(v, args[0])
	case "print", "println":
	default:
		fr.ex.oos("%s: builtin %s at %s", shortName(fr.fn.String()), b.Name(), fr.pos(in))
		if v != nil {
			fr.opaque(v, "builtin "+b.Name())
		}
	}
}

// append: the result is a fresh value-slice whose prefix equals the first operand
// and whose suffix equals the appended elements.  Aliasing with the first
// operand's backing array is not modelled (the frame engine covers that).
func (fr *Frame) execAppend(v ssa.Value, c *ssa.CallCommon, args []Val, in ssa.Instruction) {
	if v == nil {
		return
	}
	st := v.Type()
	var ssort *Sort
	func() {
		defer func() { recover() }()
		ssort = SortOf(st)
	}()
	if ssort == nil {
		fr.opaque(v, "append of unsupported element type")
		return
	}
	a, ok1 := fr.term(args[0])
	b, ok2 := fr.term(args[1])
	if !ok1 || !ok2 || a.Sort != ssort || b.Sort != ssort {
		fr.opaque(v, "append of unsupported values")
		return
	}
	la, lb := SliceLen(a), SliceLen(b)
	if lb.Op == "int" && lb.Int.Sign() == 0 {
		fr.setRes(v, TV{a, st})
		return
	}
	// small constant number of appended elements: explicit stores
	if lb.Op == "int" && lb.Int.IsInt64() && lb.Int.Int64() <= 8 {
		arr := SliceArr(a)
		off := SliceOff(a)
		for i := int64(0); i < lb.Int.Int64(); i++ {
			arr = Store(arr, Add(off, la, IntC(i)), SliceAt(b, IntC(i)))
		}
		fr.setRes(v, TV{MkSlice(ssort, Add(la, lb), off, arr), st})
		return
	}
	r := Fresh("append", ssort)
	k := Sym("$k!app", SInt)
	fr.ex.assume(fr.cur, Eq(SliceLen(r), Add(la, lb)))
	fr.ex.assume(fr.cur, Forall([]*Term{k}, Implies(And(Le(IntC(0), k), Lt(k, la)), Eq(SliceAt(r, k), SliceAt(a, k)))))
	fr.ex.assume(fr.cur, Forall([]*Term{k}, Implies(And(Le(IntC(0), k), Lt(k, lb)), Eq(SliceAt(r, Add(la, k)), SliceAt(b, k)))))
	fr.setRes(v, TV{r, st})
}

func (fr *Frame) execCopy(v ssa.Value, c *ssa.CallCommon, args []Val, in ssa.Instruction) {
	dst, ok := args[0].(SliceV)
	src, ok2 := fr.term(args[1])
	if dt, okT := fr.term(args[0]); !ok && okT && ok2 && isSliceSort(dt.Sort) && fr.modifiesSliceParam() {
		// destination is (a window of) a slice parameter the contract lists under modifies: the
		// caller sees it havoced; this body never reads it back (checked: no load from a parameter
		// slice is modelled after this point other than its entry contents -> noted)
		fr.ex.note("%s: bytes copied into a slice parameter are not tracked inside the body (the contract's modifies clause havocs it at call sites)", shortName(fr.fn.String()))
		dl, sl := SliceLen(dt), SliceLen(src)
		fr.setRes(v, TV{Ite(Le(dl, sl), dl, sl), types.Typ[types.Int]})
		return
	}
	if !ok || !ok2 {
		fr.ex.oos("%s: copy into non-local slice at %s", shortName(fr.fn.String()), fr.pos(in))
		if v != nil {
			fr.opaque(v, "copy")
		}
		return
	}
	dl := Sub(dst.Hi, dst.Lo)
	sl := SliceLen(src)
	n := Ite(Le(dl, sl), dl, sl)
	old := fr.readPath(dst.Cell, dst.Path)
	nv := Fresh("copy", old.Sort)
	k := Sym("$k!copy", SInt)
	fr.ex.assume(fr.cur, Forall([]*Term{k}, Eq(Select(nv, k),
		Ite(And(Le(dst.Lo, k), Lt(k, Add(dst.Lo, n))), SliceAt(src, Sub(k, dst.Lo)), Select(old, k)))))
	if len(dst.Path) == 0 && dst.Cell.Dyn {
		fr.mem[dst.Cell] = nv
	} else {
		fr.store(PtrV{Cell: dst.Cell, Path: dst.Path}, nv)
	}
	fr.setRes(v, TV{n, types.Typ[types.Int]})
}

// modifiesSliceParam: the frame's function lists a slice-typed parameter under modifies.
func (fr *Frame) modifiesSliceParam() bool {
	if fr.con == nil {
		return false
	}
	for _, m := range fr.con.Modifies {
		for _, p := range fr.fn.Params {
			if p.Name() == m {
				if _, ok := p.Type().Underlying().(*types.Slice); ok {
					return true
				}
			}
		}
	}
	return false
}

// invokeUnion: a method without results invoked on a value of a sealed interface (tagged union):
// one guarded call per implementer, the memories merged afterwards.
func (fr *Frame) invokeUnion(tv TV, c *ssa.CallCommon, args []Val, in ssa.Instruction) bool {
	ex := fr.ex
	cases := unionCases[tv.T.Sort]
	type target struct {
		f    *ssa.Function
		recv Val
		g    *Term
	}
	var ts []target
	for _, uc := range cases {
		ms := ex.P.SSA.MethodSets.MethodSet(uc.Typ)
		sel := ms.Lookup(c.Method.Pkg(), c.Method.Name())
		if sel == nil {
			return false
		}
		f := ex.P.SSA.MethodValue(sel)
		if f == nil {
			return false
		}
		payload := Typed(SelField(uc.Ctor, 0, tv.T), uc.Elem)
		var recv Val = TV{payload, uc.Elem}
		if _, isP := uc.Typ.(*types.Pointer); isP {
			recv = ValPtr{Root: payload, Elem: uc.Elem}
		}
		ts = append(ts, target{f, recv, IsCtor(uc.Ctor, tv.T)})
	}
	fr.safety(in, "nil", Not(IsCtor(tv.T.Sort.Ctors[0], tv.T)))
	cur0, mem0 := fr.cur, fr.mem
	var gs []*Term
	var ms []Mem
	for _, t := range ts {
		fr.cur = And(cur0, t.g)
		fr.mem = mem0.clone()
		if !fr.cur.IsFalse() {
			fr.callFunc(nil, t.f, append([]Val{t.recv}, args...), nil, in)
		}
		gs = append(gs, fr.cur)
		ms = append(ms, fr.mem)
	}
	fr.mem = mergeMem(gs, ms).clone()
	fr.cur = Or(gs...)
	return true
}

// callAsserts: `at <site> assert e` clauses of the function under verification; $arg0.. are the
// actual arguments of the call at that site.
func (fr *Frame) callAsserts(args []Val, in ssa.Instruction) {
	if fr.con == nil || len(fr.con.CallAsserts) == 0 || in == nil {
		return
	}
	site := fr.site(in)
	site = strings.TrimPrefix(site, fr.prefix)
	for _, cl := range fr.con.CallAsserts[site] {
		env := fr.bodyEnv(fr.curBlock, fr.mem)
		if env == nil {
			continue
		}
		for i, a := range args {
			env.vars[fmt.Sprintf("$arg%d", i)] = a
		}
		t, err := env.EvalBool(cl.Expr)
		if err != nil {
			fr.ex.oos("%s: at %s: %v", shortName(fr.fn.String()), site, err)
			continue
		}
		nm := strings.ReplaceAll(cl.Src[strings.Index(cl.Src, " assert ")+8:], " ", "")
		if cl.Label != "" && !strings.HasPrefix(cl.Label, "requires#") && !strings.HasPrefix(cl.Label, "ensures#") {
			nm = cl.Label
		}
		fr.ex.oblige("at:"+site+"/assert:"+nm, "assert", fr.pos(in), fr.cur, t)
	}
}
