package main

import (
	"fmt"
	"go/token"
	"go/types"
	"os"
	"sort"
	"strings"

	"golang.org/x/tools/go/packages"
	"golang.org/x/tools/go/ssa"
	"golang.org/x/tools/go/ssa/ssautil"
)

const modPath = "go.sia.tech/core"

type Program struct {
	specConsts map[*ssa.Global]*Term
	storeCount map[*ssa.Global]int
	initVals   map[*ssa.Package]map[*ssa.Global]*Term
	Fset     *token.FileSet
	Pkgs     []*packages.Package
	SSA      *ssa.Program
	ByPath   map[string]*packages.Package
	Funcs    map[string]*ssa.Function // by ssa String()
	Store    *ContractStore
	Repo     string
	codecSet map[string]bool
}

func LoadProgram(repo string, patterns ...string) (*Program, error) {
	cfg := &packages.Config{
		Mode:       packages.LoadAllSyntax,
		Dir:        repo,
		BuildFlags: []string{"-tags=verif"},
		Env:        append(os.Environ(), "PATH=/opt/veriftools/go1.26.8/bin:"+os.Getenv("PATH"), "GOFLAGS=-mod=mod", "GOPROXY=off", "GOSUMDB=off", "GOTOOLCHAIN=local"),
	}
	pkgs, err := packages.Load(cfg, patterns...)
	if err != nil {
		return nil, err
	}
	var errs []string
	packages.Visit(pkgs, nil, func(p *packages.Package) {
		if strings.HasPrefix(p.PkgPath, modPath) {
			for _, e := range p.Errors {
				errs = append(errs, e.Error())
			}
		}
	})
	if len(errs) > 0 {
		return nil, fmt.Errorf("package errors:\n%s", strings.Join(errs, "\n"))
	}
	prog, _ := ssautil.AllPackages(pkgs, ssa.GlobalDebug|ssa.InstantiateGenerics)
	prog.Build()
	p := &Program{Fset: prog.Fset, Pkgs: pkgs, SSA: prog, ByPath: map[string]*packages.Package{}, Funcs: map[string]*ssa.Function{}, Repo: repo}
	packages.Visit(pkgs, nil, func(pk *packages.Package) { p.ByPath[pk.PkgPath] = pk })
	for fn := range ssautil.AllFunctions(prog) {
		p.Funcs[fn.String()] = fn
	}
	return p, nil
}

func (p *Program) FuncNames(prefix string) []string {
	var r []string
	for n := range p.Funcs {
		if strings.HasPrefix(n, prefix) {
			r = append(r, n)
		}
	}
	sort.Strings(r)
	return r
}

func (p *Program) Pos(pos token.Pos) string {
	if !pos.IsValid() {
		return "?"
	}
	ps := p.Fset.Position(pos)
	return fmt.Sprintf("%s:%d", strings.TrimPrefix(ps.Filename, p.Repo+"/"), ps.Line)
}

// lookupType resolves a type expression in the scope of pkg.
func (p *Program) lookupType(pkg *packages.Package, expr string) (types.Type, error) {
	tv, err := types.Eval(p.Fset, pkg.Types, token.NoPos, expr)
	if err != nil {
		return nil, err
	}
	if !tv.IsType() {
		return nil, fmt.Errorf("%s is not a type", expr)
	}
	return tv.Type, nil
}
