package main

// Symbolic execution of go/ssa functions into named proof obligations.

import (
	"go/constant"
	"fmt"
	"go/token"
	"go/types"
	"os"
	"sort"
	"strings"

	"golang.org/x/tools/go/ssa"
)

type Obligation struct {
	Name   string
	Kind   string // ensures / pre / no-panic / bounds / nil / div / inv-entry / inv-preserved / cover ...
	Func   string
	Pos    string
	Hyps   []*Term
	Goal   *Term
	Expect string // "unsat" for proofs, "sat" for cover checks
	Recs   []*RecDef
	Inputs []*Term
	Note   string
	// results
	Status  string // discharged / failed / unknown / timeout
	Solver  string
	TimeMS  int64
	Model   string
	SMTSize int
	Pre     *PreReplay // preimage obligation: how to replay a counterexample (two runs)
}

// PreReplay: the second input vector of a preimage obligation is read from the model under the
// names pre!B!<param>; covers is reproduced when both runs give the same digest, excludes when
// they give different digests.
type PreReplay struct {
	Kind string
	Of   string
	Cand []*Term // extra constraints for the candidate-counterexample search only
}

type Exec struct {
	P            *Program
	Unit         string
	Con          *Contract
	Assumes      []*Term
	Obls         []*Obligation
	OOS          []string // out-of-subset notes
	Inlined      map[string]bool
	Used         map[string]bool // contracts used at call sites
	Trusted      map[string]bool
	cellCtr      int
	errSite      int
	depth        int
	Inputs       []*Term
	Recs         map[string]*RecDef
	PanicOK      *Term // Φ: condition (over entry state) under which a panic is the specified behaviour
	MayPanic     bool
	Covers       []*Obligation
	splitHyp     *Term
	suffix       string
	stack        []*ssa.Function
	ghostCtr     int
	absDone      map[string]bool
	funcCells    map[*Cell]FuncV
	mapCells     map[*Cell]MapV
	ghostCells   map[*Cell]*Cell
	wireUnit     *ssa.Function
	kernelMode   bool
	inlinedFns   []*ssa.Function
	initCapture  map[*ssa.Global]*Term // set while a package initialiser is evaluated
	flatWire     bool // byte-length mode: nested codecs are inlined instead of boxed
	encCells     map[*Cell]bool // Encoder cells with a ghost stream
	wireDeps     map[string]bool
	encLog       map[*Cell][]emission
	ptrAliases   []ptrAlias
	valCells     map[string]Val
	ghosts       map[string]Val
	split        splitRun
	AssumedNotes []string
}

type retInfo struct {
	guard *Term
	vals  []Val
	mem   Mem
	block *ssa.BasicBlock
}

type Frame struct {
	ex          *Exec
	fn          *ssa.Function
	con         *Contract
	vals        map[ssa.Value]Val
	guard       map[*ssa.BasicBlock]*Term
	memOut      map[*ssa.BasicBlock]Mem
	outG        map[*ssa.BasicBlock]*Term // guard at block end (after narrowing)
	edgeC       map[[2]int]*Term          // edge condition (from,to)
	cells       map[ssa.Value]*Cell
	rets        []retInfo
	prefix      string
	top         bool
	params      []Val
	entry       Mem
	ord         map[ssa.Instruction]int
	loops       []*Loop
	loopOf      map[*ssa.BasicBlock]*Loop // header -> loop
	backEdg     map[[2]int]bool
	cur         *Term
	mem         Mem
	defers      []*ssa.Defer
	named       map[string]Val
	env         *SpecEnv // entry environment (params, old)
	order       []*ssa.BasicBlock
	edgeOv      map[[2]int]edgeState
	iterTag     string
	lastUnknown string
	curBlock    *ssa.BasicBlock
	segs        map[*Loop]*segCtx
	inheritSeg  *segCtx
}

var _ = 0

type Loop struct {
	Header *ssa.BasicBlock
	Blocks map[*ssa.BasicBlock]bool
	Ord    int
	Pos    token.Pos
	Parent *Loop
	havoc  map[*ssa.Phi]*Term
}

func (ex *Exec) oos(format string, a ...any) {
	s := fmt.Sprintf(format, a...)
	for _, o := range ex.OOS {
		if o == s {
			return
		}
	}
	ex.OOS = append(ex.OOS, s)
}

func (ex *Exec) assume(g, fact *Term) {
	f := Implies(g, fact)
	if !f.IsTrue() {
		ex.Assumes = append(ex.Assumes, f)
	}
}

func (ex *Exec) oblige(name, kind, pos string, g, goal *Term) {
	if os.Getenv("GOVC_SPLIT") != "" && goal.Op == "and" {
		for i, c := range goal.Args {
			ex.oblige(fmt.Sprintf("%s/c%d", name, i+1), kind, pos, g, c)
		}
		return
	}
	if os.Getenv("GOVC_SPLIT") != "" && goal.Op == "=>" && goal.Args[1].Op == "and" {
		for i, c := range goal.Args[1].Args {
			ex.oblige(fmt.Sprintf("%s/c%d", name, i+1), kind, pos, And(g, goal.Args[0]), c)
		}
		return
	}
	if os.Getenv("GOVC_SPLIT") != "" {
		var shape func(t *Term, d int) string
		shape = func(t *Term, d int) string {
			if d == 0 || len(t.Args) == 0 {
				return t.Op
			}
			s := "(" + t.Op
			for _, a := range t.Args {
				s += " " + shape(a, d-1)
			}
			return s + ")"
		}
		fmt.Fprintf(os.Stderr, "GOAL %s: %s\n", name, shape(goal, 3))
	}
	o := &Obligation{Name: ex.Unit + ex.suffix + "/" + name, Kind: kind, Func: ex.Unit, Pos: pos, Expect: "unsat"}
	o.Hyps = append([]*Term{}, ex.Assumes...)
	if ex.splitHyp != nil {
		o.Hyps = append(o.Hyps, ex.splitHyp)
	}
	o.Goal = Implies(g, goal)
	o.Inputs = ex.Inputs
	ex.Obls = append(ex.Obls, o)
}

func shortName(fn string) string {
	s := strings.ReplaceAll(fn, modPath+"/", "")
	return s
}

// ---- loops ----

func (fr *Frame) findLoops() {
	fn := fr.fn
	fr.backEdg = map[[2]int]bool{}
	fr.loopOf = map[*ssa.BasicBlock]*Loop{}
	for _, b := range fn.Blocks {
		for _, s := range b.Succs {
			if s.Dominates(b) {
				fr.backEdg[[2]int{b.Index, s.Index}] = true
				lp := fr.loopOf[s]
				if lp == nil {
					lp = &Loop{Header: s, Blocks: map[*ssa.BasicBlock]bool{s: true}}
					fr.loopOf[s] = lp
					fr.loops = append(fr.loops, lp)
				}
				// natural loop body: all blocks that reach b without passing through s
				stack := []*ssa.BasicBlock{b}
				for len(stack) > 0 {
					x := stack[len(stack)-1]
					stack = stack[:len(stack)-1]
					if lp.Blocks[x] {
						continue
					}
					lp.Blocks[x] = true
					stack = append(stack, x.Preds...)
				}
			}
		}
	}
	for _, lp := range fr.loops {
		for b := range lp.Blocks {
			for _, in := range b.Instrs {
				if p := in.Pos(); p.IsValid() {
					if _, ok := in.(*ssa.DebugRef); ok {
						continue
					}
					if _, ok := in.(*ssa.Phi); ok {
						continue // a phi is positioned at its variable's declaration
					}
					if !lp.Pos.IsValid() || p < lp.Pos {
						lp.Pos = p
					}
				}
			}
		}
	}
	sort.SliceStable(fr.loops, func(i, j int) bool {
		a, b := fr.loops[i], fr.loops[j]
		if a.Pos != b.Pos {
			return a.Pos < b.Pos
		}
		return len(a.Blocks) > len(b.Blocks)
	})
	for i, lp := range fr.loops {
		lp.Ord = i + 1
	}
}

func (fr *Frame) innermostLoop(b *ssa.BasicBlock) *Loop {
	var best *Loop
	for _, lp := range fr.loops {
		if lp.Blocks[b] && (best == nil || len(lp.Blocks) < len(best.Blocks)) {
			best = lp
		}
	}
	return best
}

// rootCell finds the statically known cell an address is derived from.
func (fr *Frame) rootOf(v ssa.Value) ssa.Value {
	for {
		switch x := v.(type) {
		case *ssa.FieldAddr:
			v = x.X
		case *ssa.IndexAddr:
			v = x.X
		case *ssa.Slice:
			v = x.X
		case *ssa.ChangeType:
			v = x.X
		case *ssa.Convert:
			v = x.X
		default:
			return v
		}
	}
}

// modifiedRoots lists alloc/param roots possibly written in the loop.
func (fr *Frame) modifiedRoots(lp *Loop) (map[ssa.Value]bool, bool) {
	roots := map[ssa.Value]bool{}
	unknown := false
	unknownWhy := ""
	defer func() { fr.lastUnknown = unknownWhy }()
	mark := func(v ssa.Value) {
		r := fr.rootOf(v)
		switch r.(type) {
		case *ssa.Alloc, *ssa.Parameter, *ssa.MakeSlice, *ssa.FreeVar, *ssa.MakeMap:
			roots[r] = true
		default:
			if pv, ok := fr.vals[r].(PtrV); ok && pv.Cell != nil && len(pv.Path) == 0 {
				// a pointer computed before the loop (e.g. returned by an inlined constructor)
				// that is known to address one whole cell
				roots[r] = true
				return
			}
			if isEncoderPtr(r.Type()) || isNamedPtr(r.Type(), typesPkg, "Hasher") {
				// the Encoder/Hasher state that matters is the ghost item stream, which is not
				// part of the havoced memory
				return
			}
			if _, ok := r.Type().Underlying().(*types.Pointer); ok {
				unknown = true
				unknownWhy = fmt.Sprintf("%s (%T)", r.Name(), r)
			}
			if _, ok := r.Type().Underlying().(*types.Slice); ok {
				unknown = true
				unknownWhy = fmt.Sprintf("%s (%T)", r.Name(), r)
			}
		}
	}
	for b := range lp.Blocks {
		for _, in := range b.Instrs {
			switch x := in.(type) {
			case *ssa.Store:
				mark(x.Addr)
			case *ssa.Alloc:
				roots[x] = true
			case *ssa.MapUpdate:
				if ld, ok := x.Map.(*ssa.UnOp); ok && ld.Op == token.MUL {
					mark(ld.X) // map held in a variable cell
				} else {
					mark(x.Map)
				}
			case ssa.CallInstruction:
				cc := x.Common()
				callee := cc.StaticCallee()
				if bi, ok := cc.Value.(*ssa.Builtin); ok {
					switch bi.Name() {
					case "copy", "delete", "clear":
						mark(cc.Args[0])
					}
					continue
				}
				for i, a := range cc.Args {
					switch a.Type().Underlying().(type) {
					case *types.Pointer, *types.Slice, *types.Map:
						if callee == nil || fr.ex.mayModifyParam(callee, i, nil) {
							mark(a)
						}
					}
				}
				if cl, ok := cc.Value.(*ssa.MakeClosure); ok {
					fn := cl.Fn.(*ssa.Function)
					for i, b := range cl.Bindings {
						if fr.ex.mayModifyFreeVar(fn, i, nil) {
							mark(b)
						}
					}
				}
				if callee == nil || len(callee.FreeVars) > 0 {
					// a call through a function value (a closure held in a variable, possibly one
					// that calls further closures): every captured variable that some closure of
					// this function may write is written by the loop
					for _, b2 := range fr.fn.Blocks {
						for _, in2 := range b2.Instrs {
							if mc, ok := in2.(*ssa.MakeClosure); ok {
								cfn := mc.Fn.(*ssa.Function)
								for i, bnd := range mc.Bindings {
									if fr.ex.mayModifyFreeVar(cfn, i, nil) {
										mark(bnd)
									}
								}
							}
						}
					}
				}
			}
		}
	}
	return roots, unknown
}

// ---- frame execution ----

func (ex *Exec) newCell(t types.Type, name string) *Cell {
	ex.cellCtr++
	return &Cell{ID: ex.cellCtr, Typ: t, Name: name}
}

func (fr *Frame) computeOrdinals() {
	fr.ord = map[ssa.Instruction]int{}
	type site struct {
		in  ssa.Instruction
		key string
		pos token.Pos
		seq int
	}
	var sites []site
	seq := 0
	for _, b := range fr.fn.Blocks {
		for _, in := range b.Instrs {
			k := fr.siteKey(in)
			if k != "" {
				sites = append(sites, site{in, k, in.Pos(), seq})
			}
			seq++
		}
	}
	sort.SliceStable(sites, func(i, j int) bool {
		if sites[i].pos != sites[j].pos {
			return sites[i].pos < sites[j].pos
		}
		return sites[i].seq < sites[j].seq
	})
	cnt := map[string]int{}
	for _, s := range sites {
		cnt[s.key]++
		fr.ord[s.in] = cnt[s.key]
	}
}

func (fr *Frame) siteKey(in ssa.Instruction) string {
	switch x := in.(type) {
	case *ssa.IndexAddr, *ssa.Index:
		return "index"
	case *ssa.Slice:
		return "slice"
	case *ssa.UnOp:
		if x.Op == token.MUL {
			return "deref"
		}
	case *ssa.FieldAddr:
		return "field"
	case *ssa.BinOp:
		if x.Op == token.QUO || x.Op == token.REM {
			return "div"
		}
		if x.Op == token.SHL || x.Op == token.SHR {
			return "shift"
		}
	case *ssa.Panic:
		return "panic"
	case *ssa.TypeAssert:
		return "typeassert"
	case *ssa.MakeSlice:
		return "make"
	case *ssa.Store:
		return "store"
	case *ssa.MapUpdate:
		return "mapupdate"
	case *ssa.Convert:
		return "convert"
	case ssa.CallInstruction:
		return "call:" + calleeName(x.Common())
	}
	return ""
}

func calleeName(c *ssa.CallCommon) string {
	if c.IsInvoke() {
		return "invoke." + c.Method.Name()
	}
	switch v := c.Value.(type) {
	case *ssa.Function:
		return shortFuncName(v)
	case *ssa.Builtin:
		return v.Name()
	case *ssa.MakeClosure:
		return shortFuncName(v.Fn.(*ssa.Function))
	}
	return "dynamic"
}

func shortFuncName(f *ssa.Function) string {
	n := f.Name()
	if recv := f.Signature.Recv(); recv != nil {
		t := recv.Type()
		if p, ok := t.(*types.Pointer); ok {
			t = p.Elem()
		}
		if nt, ok := t.(*types.Named); ok {
			return nt.Obj().Name() + "." + n
		}
	}
	if f.Pkg != nil && f.Pkg.Pkg.Path() != "" && !strings.HasPrefix(f.Pkg.Pkg.Path(), modPath) {
		return f.Pkg.Pkg.Name() + "." + n
	}
	return n
}

func (fr *Frame) site(in ssa.Instruction) string {
	return fmt.Sprintf("%s%s#%d%s", fr.prefix, fr.siteKey(in), fr.ord[in], fr.iterTag)
}

func (fr *Frame) pos(in ssa.Instruction) string {
	p := in.Pos()
	if !p.IsValid() {
		// nearest positioned instruction in block
		for _, x := range in.Block().Instrs {
			if x.Pos().IsValid() {
				p = x.Pos()
				if x == in {
					break
				}
			}
		}
	}
	return fr.ex.P.Pos(p)
}

// safety: an operation that panics unless `safe` holds.
func (fr *Frame) safety(in ssa.Instruction, what string, safe *Term) {
	ex := fr.ex
	if safe.IsTrue() {
		return
	}
	if !ex.MayPanic {
		goal := safe
		if ex.PanicOK != nil {
			goal = Or(safe, ex.PanicOK)
		}
		ex.oblige(fr.site(in)+"/"+what, what, fr.pos(in), fr.cur, goal)
	}
	fr.cur = And(fr.cur, safe)
}

func (fr *Frame) get(v ssa.Value) Val {
	switch x := v.(type) {
	case *ssa.Const:
		return constTerm(x)
	case *ssa.Function:
		return FuncV{Fn: x}
	case *ssa.Global:
		return fr.ex.globalPtr(x)
	case *ssa.Builtin:
		return OpaqueV{"builtin " + x.Name(), x.Type()}
	}
	if r, ok := fr.vals[v]; ok {
		return r
	}
	return OpaqueV{fmt.Sprintf("undefined ssa value %s", v.Name()), v.Type()}
}

var globalCells = map[*ssa.Global]*Cell{}

var errGlobals map[string]int64

func (ex *Exec) globalPtr(g *ssa.Global) Val {
	// globals are modelled as immutable symbolic values (read-only)
	elem := g.Type().(*types.Pointer).Elem()
	name := "global:" + g.Pkg.Pkg.Name() + "." + g.Name()
	defer func() { recover() }()
	if c := ex.P.specifierConst(g); c != nil {
		return ValPtr{Root: c, Elem: elem}
	}
	if ex.initCapture == nil && isInteger(elem) {
		if c := ex.P.initIntConst(g); c != nil {
			return ValPtr{Root: c, Elem: elem}
		}
	}
	if isErrorType(elem) {
		// package-level error variables (io.EOF, io.ErrUnexpectedEOF, ErrOverflow, ...): non-nil
		// sentinel values, assumed never reassigned
		if errGlobals == nil {
			errGlobals = map[string]int64{}
		}
		id, ok := errGlobals[name]
		if !ok {
			id = int64(500000 + len(errGlobals))
			errGlobals[name] = id
		}
		ex.Trusted["package-level error variables are non-nil sentinels that are never reassigned"] = true
		return ValPtr{Root: IntC(id), Elem: elem}
	}
	return ValPtr{Root: Sym(name, SortOf(elem)), Elem: elem}
}

// term converts a value to a term of its Go type (snapshotting cell-backed values).
func (fr *Frame) term(v Val) (*Term, bool) {
	switch x := v.(type) {
	case TV:
		return x.T, true
	case MapV:
		return fr.mem[x.Cell], fr.mem[x.Cell] != nil
	case SliceV:
		arr := fr.readPath(x.Cell, x.Path)
		return MkSlice(SortOf(x.Typ), Sub(x.Hi, x.Lo), x.Lo, arr), true
	case PtrV:
		t := fr.load(x)
		if t == nil {
			return nil, false
		}
		return PtrRef(PtrSort(x.Elem), t), true
	case ValPtr:
		return PtrRef(PtrSort(x.Elem), x.Root), true
	case IfaceV:
		if isErrorType(x.Typ) {
			if x.Dyn == nil {
				return IntC(0), true
			}
			fr.ex.errSite++
			return IntC(int64(fr.ex.errSite)), true
		}
		return Fresh("iface", SIface), true
	case OpaqueV:
		if x.Typ != nil {
			if _, isTuple := x.Typ.(*types.Tuple); !isTuple {
				func() {
					defer func() { recover() }()
					v = TV{Fresh("opaque", SortOf(x.Typ)), x.Typ}
				}()
				if tv, ok := v.(TV); ok {
					fr.ex.oos("opaque value used: %s", x.Why)
					return tv.T, true
				}
			}
		}
	}
	return nil, false
}

// ptrAlias: a pointer to a local cell stored into a location of another cell (p.f = new(T)).
// Loads of that location return the cell pointer, and whole-value reads see the pointee's
// current value.
type ptrAlias struct {
	cell   *Cell
	path   []PathEl
	target PtrV
	guard  *Term // path condition under which the pointer was stored (nil: always)
}

// aliasLive: the alias was recorded on a path the current one extends (every conjunct of its
// guard is a conjunct of the current path condition); an alias recorded on another branch says
// nothing here.
func aliasLive(al ptrAlias, cur *Term) bool {
	if al.guard == nil || al.guard.IsTrue() || cur == nil {
		return true
	}
	have := map[int]bool{}
	for _, c := range conjuncts(cur) {
		have[c.id] = true
	}
	for _, c := range conjuncts(al.guard) {
		if !have[c.id] {
			return false
		}
	}
	return true
}

func samePath(a, b []PathEl) bool {
	if len(a) != len(b) {
		return false
	}
	for i := range a {
		if a[i].IsIdx != b[i].IsIdx || a[i].Field != b[i].Field || a[i].Idx != b[i].Idx {
			return false
		}
	}
	return true
}

// refreshAliases patches pointer fields of cell c that alias local cells with the pointee's
// current value.
func (ex *Exec) refreshAliases(mem Mem, c *Cell, cv *Term) *Term {
	if c.Dyn || c.Ghost != nil || cv == nil {
		return cv
	}
	for _, al := range ex.ptrAliases {
		if al.cell != c {
			continue
		}
		if tv := mem[al.target.Cell]; tv != nil && len(al.target.Path) == 0 {
			func() {
				defer func() { recover() }()
				cur, _ := project(cv, c.Typ, al.path)
				// only while the field still holds a non-nil pointer (it may have been overwritten on some path)
				nv := PtrRef(PtrSort(al.target.Elem), tv)
				live := Not(PtrIsNil(cur))
				if al.guard != nil {
					// the alias holds only on the paths on which the pointer was stored
					live = And(al.guard, live)
				}
				cv = update(cv, c.Typ, al.path, Ite(live, nv, cur))
			}()
		}
	}
	return cv
}

func (fr *Frame) aliasAt(c *Cell, path []PathEl) (PtrV, bool) {
	for _, al := range fr.ex.ptrAliases {
		if al.cell == c && samePath(al.path, path) && aliasLive(al, fr.cur) {
			return al.target, true
		}
	}
	return PtrV{}, false
}

func (fr *Frame) readPath(c *Cell, path []PathEl) *Term {
	cv := fr.mem[c]
	if cv == nil {
		cv = Sym(fmt.Sprintf("cell!%d!%s", c.ID, c.Name), c.sort())
		fr.mem[c] = cv
	}
	cv = fr.ex.refreshAliases(fr.mem, c, cv)
	if c.Dyn {
		if len(path) == 0 {
			return cv
		}
		t, _ := projectDyn(cv, c.Typ, path)
		return t
	}
	t, _ := project(cv, c.Typ, path)
	return t
}

func (fr *Frame) load(p PtrV) *Term { return fr.readPath(p.Cell, p.Path) }

func (fr *Frame) store(p PtrV, v *Term) {
	cv := fr.mem[p.Cell]
	if cv == nil {
		cv = Sym(fmt.Sprintf("cell!%d!%s", p.Cell.ID, p.Cell.Name), p.Cell.sort())
	}
	if p.Cell.Dyn {
		fr.mem[p.Cell] = updateDyn(cv, p.Cell.Typ, p.Path, v)
	} else {
		fr.mem[p.Cell] = update(cv, p.Cell.Typ, p.Path, v)
	}
}

// relGuards strips the conjuncts common to all guards (at a join they only select among the
// incoming edges).
func relGuards(gs []*Term) []*Term {
	if len(gs) < 2 {
		return gs
	}
	common := map[int]bool{}
	for _, c := range conjuncts(gs[0]) {
		common[c.id] = true
	}
	for _, g := range gs[1:] {
		here := map[int]bool{}
		for _, c := range conjuncts(g) {
			here[c.id] = true
		}
		for id := range common {
			if !here[id] {
				delete(common, id)
			}
		}
	}
	if len(common) == 0 {
		return gs
	}
	out := make([]*Term, len(gs))
	for i, g := range gs {
		var keep []*Term
		for _, c := range conjuncts(g) {
			if !common[c.id] {
				keep = append(keep, c)
			}
		}
		out[i] = And(keep...)
	}
	return out
}

func mergeMem(gs []*Term, ms []Mem) Mem {
	gs = relGuards(gs)
	out := Mem{}
	for _, m := range ms {
		for c := range m {
			out[c] = nil
		}
	}
	for c := range out {
		var acc *Term
		for i := len(ms) - 1; i >= 0; i-- {
			v := ms[i][c]
			if v == nil {
				continue
			}
			if acc == nil {
				acc = v
			} else {
				acc = Ite(gs[i], v, acc)
			}
		}
		out[c] = acc
	}
	return out
}

func mergeVals(gs []*Term, vs []Val) Val {
	if len(vs) == 0 {
		return OpaqueV{"no value", nil}
	}
	same := true
	for _, v := range vs[1:] {
		if !valIdentical(v, vs[0]) {
			same = false
		}
	}
	if same {
		return vs[0]
	}
	gs = relGuards(gs)
	var acc *Term
	var typ types.Type
	for i := len(vs) - 1; i >= 0; i-- {
		tv, ok := vs[i].(TV)
		if !ok {
			return OpaqueV{fmt.Sprintf("cannot merge %T values", vs[i]), nil}
		}
		typ = tv.Typ
		if acc == nil {
			acc = tv.T
		} else {
			if acc.Sort != tv.T.Sort {
				return OpaqueV{"merge sort mismatch", nil}
			}
			acc = Ite(gs[i], tv.T, acc)
		}
	}
	return TV{Typed(acc, typ), typ}
}

func valIdentical(a, b Val) bool {
	switch x := a.(type) {
	case TV:
		y, ok := b.(TV)
		return ok && x.T == y.T
	case PtrV:
		y, ok := b.(PtrV)
		if !ok || x.Cell != y.Cell || len(x.Path) != len(y.Path) {
			return false
		}
		for i := range x.Path {
			if x.Path[i].IsIdx != y.Path[i].IsIdx || x.Path[i].Field != y.Path[i].Field || x.Path[i].Idx != y.Path[i].Idx {
				return false
			}
		}
		return true
	case FuncV:
		y, ok := b.(FuncV)
		return ok && x.Fn == y.Fn && len(x.Bind) == 0 && len(y.Bind) == 0
	case ValPtr:
		y, ok := b.(ValPtr)
		return ok && x.Root == y.Root
	}
	return false
}

// run executes the frame's function.  args are the actual parameters, memIn the
// caller's memory, g the guard under which the call happens.
func (fr *Frame) run(args []Val, bind []Val, memIn Mem, g *Term) {
	fn := fr.fn
	ex := fr.ex
	fr.vals = map[ssa.Value]Val{}
	fr.guard = map[*ssa.BasicBlock]*Term{}
	fr.outG = map[*ssa.BasicBlock]*Term{}
	fr.memOut = map[*ssa.BasicBlock]Mem{}
	fr.edgeC = map[[2]int]*Term{}
	fr.edgeOv = map[[2]int]edgeState{}
	if fr.cells == nil {
		fr.cells = map[ssa.Value]*Cell{}
	}
	fr.named = map[string]Val{}
	fr.findLoops()
	fr.computeOrdinals()
	fr.params = args
	if fr.entry == nil {
		fr.entry = memIn
	}
	for i, p := range fn.Params {
		fr.vals[p] = args[i]
	}
	for i, fv := range fn.FreeVars {
		if i < len(bind) {
			fr.vals[fv] = bind[i]
		}
	}
	if fr.top && len(bind) == 0 && fn.Parent() != nil {
		// a closure verified on its own: a captured variable that holds a sibling closure which
		// itself captures nothing (assigned exactly once in the parent) is that function
		fr.bindSiblingClosures()
	}
	// reverse post-order ignoring back edges
	order := fr.rpo()
	fr.order = order
	done := map[*ssa.BasicBlock]bool{}
	for _, b := range order {
		if done[b] {
			continue
		}
		var gs []*Term
		var ms []Mem
		var preds []*ssa.BasicBlock
		if b == fn.Blocks[0] {
			gs, ms = []*Term{g}, []Mem{memIn}
			preds = []*ssa.BasicBlock{nil}
		}
		g2, m2, p2 := fr.predStates(b, nil)
		gs, ms, preds = append(gs, g2...), append(ms, m2...), append(preds, p2...)
		if lp := fr.loopOf[b]; lp != nil && fr.unrollCount(lp) > 0 {
			fr.unrollLoop(lp, gs, ms, preds, done)
			continue
		}
		fr.processBlock(b, gs, ms, preds, nil)
	}
	_ = ex
}

// predStates collects the states flowing into b over forward edges (optionally restricted to a loop).
func (fr *Frame) predStates(b *ssa.BasicBlock, within *Loop) (gs []*Term, ms []Mem, preds []*ssa.BasicBlock) {
	for _, p := range b.Preds {
		if fr.backEdg[[2]int{p.Index, b.Index}] {
			continue
		}
		if within != nil && !within.Blocks[p] {
			continue
		}
		if ov, ok := fr.edgeOv[[2]int{p.Index, b.Index}]; ok {
			gs = append(gs, ov.g)
			ms = append(ms, ov.mem)
			preds = append(preds, p)
			continue
		}
		og, ok := fr.outG[p]
		if !ok {
			continue // unreachable predecessor
		}
		eg := And(og, fr.edgeCond(p, b))
		gs = append(gs, eg)
		ms = append(ms, fr.memOut[p])
		preds = append(preds, p)
	}
	return
}

type edgeState struct {
	g   *Term
	mem Mem
}

func (fr *Frame) unrollCount(lp *Loop) int {
	if lp == nil {
		return 0
	}
	if fr.con != nil {
		if n := fr.con.Unroll[lp.Ord]; n > 0 {
			return n
		}
		if len(fr.con.Invs[lp.Ord]) > 0 {
			return 0
		}
	}
	// range loops over a slice/array of small constant length are unrolled automatically
	for _, phi := range fr.headerPhis(lp) {
		if phi.Comment == "rangeindex" {
			if n := fr.rangeLen(lp, phi); n != nil && n.Op == "int" && n.Int.IsInt64() && n.Int.Int64() >= 0 && n.Int.Int64() <= 16 {
				return int(n.Int.Int64())
			}
		}
	}
	return 0
}

// processBlock executes one block from the merged entry states.  phiOv, when
// non-nil, supplies the values of the block's phis (unrolled loop headers).
func (fr *Frame) processBlock(b *ssa.BasicBlock, gs []*Term, ms []Mem, preds []*ssa.BasicBlock, phiOv map[*ssa.Phi]Val) {
	ex := fr.ex
	if len(gs) == 0 {
		delete(fr.outG, b)
		return
	}
	bg := Or(gs...)
	if bg.IsFalse() {
		delete(fr.outG, b)
		return
	}
	fr.mem = mergeMem(gs, ms).clone()
	fr.cur = bg
	fr.guard[b] = bg
	fr.curBlock = b
	lp := fr.loopOf[b]
	for _, in := range b.Instrs {
		phi, ok := in.(*ssa.Phi)
		if !ok {
			break
		}
		if phiOv != nil {
			fr.vals[phi] = phiOv[phi]
			continue
		}
		var vs []Val
		for _, p := range preds {
			for k, pp := range b.Preds {
				if pp == p {
					vs = append(vs, fr.get(phi.Edges[k]))
					break
				}
			}
		}
		fr.vals[phi] = mergeVals(gs, vs)
	}
	if lp != nil && phiOv == nil {
		if !fr.enterLoop(lp, b) {
			ex.oos("%s: loop#%d has no invariant and cannot be unrolled", shortName(fr.fn.String()), lp.Ord)
			fr.outG[b] = TFalse
			return
		}
	}
	fr.execBlock(b)
	fr.outG[b] = fr.cur
	fr.memOut[b] = fr.mem
	for _, s := range b.Succs {
		if fr.backEdg[[2]int{b.Index, s.Index}] {
			if l2 := fr.loopOf[s]; fr.unrollCount(l2) == 0 {
				fr.closeLoop(l2, b)
			}
		}
	}
}

// unrollLoop executes a loop with a constant trip count by full unrolling
// (complete, not bounded: the obligation `unroll-bound` shows that no further
// iteration is possible).
func (fr *Frame) unrollLoop(lp *Loop, gs []*Term, ms []Mem, preds []*ssa.BasicBlock, done map[*ssa.BasicBlock]bool) {
	ex := fr.ex
	n := fr.unrollCount(lp)
	h := lp.Header
	var loopOrder []*ssa.BasicBlock
	for _, b := range fr.order {
		if lp.Blocks[b] {
			loopOrder = append(loopOrder, b)
			done[b] = true
		}
	}
	phis := fr.headerPhis(lp)
	// entry phi values
	phiVals := map[*ssa.Phi]Val{}
	for _, phi := range phis {
		var vs []Val
		for _, p := range preds {
			for k, pp := range h.Preds {
				if pp == p {
					vs = append(vs, fr.get(phi.Edges[k]))
					break
				}
			}
		}
		phiVals[phi] = mergeVals(gs, vs)
	}
	iterGs, iterMs := gs, ms
	type exitRec struct {
		g   *Term
		mem Mem
	}
	exits := map[[2]int][]exitRec{}
	type snap struct {
		g    *Term
		vals map[ssa.Value]Val
	}
	var snaps []snap
	name := fmt.Sprintf("%sloop#%d", fr.prefix, lp.Ord)
	for j := 0; j <= n; j++ {
		if len(iterGs) == 0 || Or(iterGs...).IsFalse() {
			break
		}
		fr.iterTag = fmt.Sprintf("@it%d", j)
		for _, b := range loopOrder {
			if b == h {
				fr.processBlock(b, iterGs, iterMs, nil, phiVals)
				continue
			}
			if l2 := fr.loopOf[b]; l2 != nil && fr.unrollCount(l2) > 0 && l2 != lp {
				ex.oos("%s: nested unrolled loops are not supported", shortName(fr.fn.String()))
				continue
			}
			g2, m2, p2 := fr.predStates(b, lp)
			fr.processBlock(b, g2, m2, p2, nil)
		}
		// exits of this iteration
		var exitG []*Term
		for _, p := range loopOrder {
			og, ok := fr.outG[p]
			if !ok {
				continue
			}
			for _, s := range p.Succs {
				if lp.Blocks[s] {
					continue
				}
				eg := And(og, fr.edgeCond(p, s))
				if eg.IsFalse() {
					continue
				}
				k := [2]int{p.Index, s.Index}
				exits[k] = append(exits[k], exitRec{eg, fr.memOut[p]})
				exitG = append(exitG, eg)
			}
		}
		if len(exitG) > 0 {
			sv := snap{g: Or(exitG...), vals: map[ssa.Value]Val{}}
			for _, b := range loopOrder {
				for _, in := range b.Instrs {
					if v, ok := in.(ssa.Value); ok {
						if x, ok := fr.vals[v]; ok {
							sv.vals[v] = x
						}
					}
				}
			}
			snaps = append(snaps, sv)
		}
		// back edges: state of the next iteration
		var ngs []*Term
		var nms []Mem
		var nps []*ssa.BasicBlock
		for _, p := range h.Preds {
			if !fr.backEdg[[2]int{p.Index, h.Index}] {
				continue
			}
			og, ok := fr.outG[p]
			if !ok {
				continue
			}
			eg := And(og, fr.edgeCond(p, h))
			if eg.IsFalse() {
				continue
			}
			ngs, nms, nps = append(ngs, eg), append(nms, fr.memOut[p]), append(nps, p)
		}
		next := map[*ssa.Phi]Val{}
		for _, phi := range phis {
			var vs []Val
			for _, p := range nps {
				for k, pp := range h.Preds {
					if pp == p {
						vs = append(vs, fr.get(phi.Edges[k]))
						break
					}
				}
			}
			if len(vs) > 0 {
				next[phi] = mergeVals(ngs, vs)
			}
		}
		phiVals = next
		iterGs, iterMs = ngs, nms
	}
	fr.iterTag = ""
	if len(iterGs) > 0 && !Or(iterGs...).IsFalse() {
		// the loop must have terminated after n iterations of its body
		ex.oblige(name+"/unroll-bound", "unroll", ex.P.Pos(lp.Pos), TTrue, Not(Or(iterGs...)))
	}
	// publish merged exit states
	for k, recs := range exits {
		var g []*Term
		var m []Mem
		for _, r := range recs {
			g = append(g, r.g)
			m = append(m, r.mem)
		}
		fr.edgeOv[k] = edgeState{Or(g...), mergeMem(g, m)}
	}
	// values defined in the loop and used after it: select by the iteration that exited
	if len(snaps) > 0 {
		keys := map[ssa.Value]bool{}
		for _, sv := range snaps {
			for v := range sv.vals {
				keys[v] = true
			}
		}
		for v := range keys {
			var g []*Term
			var vs []Val
			for _, sv := range snaps {
				if x, ok := sv.vals[v]; ok {
					g = append(g, sv.g)
					vs = append(vs, x)
				}
			}
			fr.vals[v] = mergeVals(g, vs)
		}
	}
}

func (fr *Frame) rpo() []*ssa.BasicBlock {
	seen := map[*ssa.BasicBlock]bool{}
	var post []*ssa.BasicBlock
	var dfs func(b *ssa.BasicBlock)
	// successors that leave the innermost loop of b are visited first, so that in the reverse
	// post-order a loop's body comes before the code after the loop (the emission log of an
	// encoder must contain a loop's summary before anything written after the loop is folded)
	inner := func(b *ssa.BasicBlock) *Loop {
		var best *Loop
		for _, lp := range fr.loops {
			if lp.Blocks[b] && (best == nil || len(lp.Blocks) < len(best.Blocks)) {
				best = lp
			}
		}
		return best
	}
	dfs = func(b *ssa.BasicBlock) {
		seen[b] = true
		lp := inner(b)
		for pass := 0; pass < 2; pass++ {
			for _, s := range b.Succs {
				leaves := lp != nil && !lp.Blocks[s]
				if (pass == 0) != leaves && lp != nil {
					continue
				}
				if lp == nil && pass == 1 {
					continue
				}
				if fr.backEdg[[2]int{b.Index, s.Index}] || seen[s] {
					continue
				}
				dfs(s)
			}
		}
		post = append(post, b)
	}
	dfs(fr.fn.Blocks[0])
	for i, j := 0, len(post)-1; i < j; i, j = i+1, j-1 {
		post[i], post[j] = post[j], post[i]
	}
	return post
}

func (fr *Frame) edgeCond(p, b *ssa.BasicBlock) *Term {
	last := p.Instrs[len(p.Instrs)-1]
	if iff, ok := last.(*ssa.If); ok {
		c, ok := fr.get(iff.Cond).(TV)
		if !ok {
			fr.ex.oos("%s: branch on unsupported condition at %s", shortName(fr.fn.String()), fr.pos(iff))
			return Fresh("opaquecond", SBool)
		}
		if p.Succs[0] == b && p.Succs[1] == b {
			return TTrue
		}
		if p.Succs[0] == b {
			return c.T
		}
		return Not(c.T)
	}
	return TTrue
}

func (fr *Frame) execBlock(b *ssa.BasicBlock) {
	for _, in := range b.Instrs {
		if fr.cur.IsFalse() {
			return
		}
		fr.exec(in)
	}
}

// ---- may-modify summaries (syntactic, conservative) ----

var modSummary = map[string]bool{}

// mayModifyParam reports whether fn may write through its i-th parameter (pointer, slice or map).
func (ex *Exec) mayModifyParam(fn *ssa.Function, i int, stack map[*ssa.Function]bool) bool {
	if con := ex.P.Store.Funcs[fn.String()]; con != nil && (con.Trusted || con.Abstract || len(con.Ensures) > 0 || len(con.Requires) > 0 || len(con.Modifies) > 0) && !con.Inline {
		if i < len(fn.Params) {
			name := fn.Params[i].Name()
			for _, m := range con.Modifies {
				m = strings.TrimPrefix(m, "*")
				if j := strings.Index(m, "."); j >= 0 {
					m = m[:j]
				}
				if m == name {
					return true
				}
			}
		}
		return false
	}
	switch fn.String() {
	case "fmt.Errorf", "fmt.Sprintf", "errors.New", "bytes.Compare", "(encoding/binary.bigEndian).Uint64", "(encoding/binary.littleEndian).Uint64":
		return false
	}
	if fn.Blocks == nil || i >= len(fn.Params) {
		return true
	}
	return ex.mayModifyValue(fn, fn.Params[i], fmt.Sprintf("%s#p%d", fn.String(), i), stack)
}

func (ex *Exec) mayModifyFreeVar(fn *ssa.Function, i int, stack map[*ssa.Function]bool) bool {
	if fn.Blocks == nil || i >= len(fn.FreeVars) {
		return true
	}
	return ex.mayModifyValue(fn, fn.FreeVars[i], fmt.Sprintf("%s#f%d", fn.String(), i), stack)
}

func (ex *Exec) mayModifyValue(fn *ssa.Function, root ssa.Value, key string, stack map[*ssa.Function]bool) bool {
	if r, ok := modSummary[key]; ok {
		return r
	}
	if stack == nil {
		stack = map[*ssa.Function]bool{}
	}
	if stack[fn] {
		return true
	}
	stack[fn] = true
	defer delete(stack, fn)
	// values derived from root (addresses into it)
	derived := map[ssa.Value]bool{root: true}
	changed := true
	for changed {
		changed = false
		for _, b := range fn.Blocks {
			for _, in := range b.Instrs {
				v, ok := in.(ssa.Value)
				if !ok || derived[v] {
					continue
				}
				var src ssa.Value
				switch x := in.(type) {
				case *ssa.FieldAddr:
					src = x.X
				case *ssa.IndexAddr:
					src = x.X
				case *ssa.Slice:
					src = x.X
				case *ssa.ChangeType:
					src = x.X
				case *ssa.Convert:
					src = x.X
				case *ssa.Phi:
					for _, e := range x.Edges {
						if derived[e] {
							src = e
						}
					}
				case *ssa.UnOp:
					// loading a pointer/slice/map out of the object: still reaches memory the caller can see
					if x.Op == token.MUL && derived[x.X] {
						switch x.Type().Underlying().(type) {
						case *types.Pointer, *types.Slice, *types.Map:
							src = x.X
						}
					}
				}
				if src != nil && derived[src] {
					derived[v] = true
					changed = true
				}
			}
		}
	}
	res := false
	for _, b := range fn.Blocks {
		for _, in := range b.Instrs {
			switch x := in.(type) {
			case *ssa.Store:
				if derived[x.Addr] {
					res = true
				}
			case *ssa.MapUpdate:
				if derived[x.Map] {
					res = true
				}
			case ssa.CallInstruction:
				cc := x.Common()
				callee := cc.StaticCallee()
				for i, a := range cc.Args {
					if !derived[a] {
						continue
					}
					if b, ok := cc.Value.(*ssa.Builtin); ok {
						switch b.Name() {
						case "len", "cap":
							continue
						case "append":
							if i == 0 {
								continue // result is a new slice value; aliasing handled by the frame engine
							}
							continue
						case "copy":
							if i == 0 {
								res = true
							}
							continue
						}
					}
					if callee == nil || ex.mayModifyParam(callee, i, stack) {
						res = true
					}
				}
				if cl, ok := cc.Value.(*ssa.MakeClosure); ok {
					cf := cl.Fn.(*ssa.Function)
					for i, bnd := range cl.Bindings {
						if derived[bnd] && ex.mayModifyFreeVar(cf, i, stack) {
							res = true
						}
					}
				}
			case *ssa.MakeClosure:
				cf := x.Fn.(*ssa.Function)
				for i, bnd := range x.Bindings {
					if derived[bnd] && ex.mayModifyFreeVar(cf, i, stack) {
						res = true
					}
				}
			}
		}
	}
	modSummary[key] = res
	return res
}

// specifierConst: the value of a package-level variable that is assigned exactly once in the
// whole program, in its package initialiser, from types.NewSpecifier("constant") -- i.e. a
// 16-byte specifier that is never reassigned (checked over all stores of the SSA program).
func (p *Program) specifierConst(g *ssa.Global) *Term {
	if p.specConsts == nil {
		p.specConsts = map[*ssa.Global]*Term{}
		stores := map[*ssa.Global]int{}
		val := map[*ssa.Global]string{}
		okv := map[*ssa.Global]bool{}
		for _, fn := range p.Funcs {
			for _, b := range fn.Blocks {
				for _, in := range b.Instrs {
					st, ok := in.(*ssa.Store)
					if !ok {
						continue
					}
					gg, ok := st.Addr.(*ssa.Global)
					if !ok {
						continue
					}
					stores[gg]++
					if fn.Name() != "init" {
						continue
					}
					if call, ok := st.Val.(*ssa.Call); ok {
						if cf, ok := call.Call.Value.(*ssa.Function); ok && cf.String() == typesPkg+".NewSpecifier" && len(call.Call.Args) == 1 {
							if c, ok := call.Call.Args[0].(*ssa.Const); ok && c.Value != nil {
								val[gg] = constant.StringVal(c.Value)
								okv[gg] = true
							}
						}
					}
				}
			}
		}
		p.storeCount = stores
		for gg, n := range stores {
			if n == 1 && okv[gg] && len(val[gg]) <= 16 {
				arr := ConstArray(ArraySort(SInt, SInt), IntC(0))
				for i := 0; i < len(val[gg]); i++ {
					arr = Store(arr, IntC(int64(i)), IntC(int64(val[gg][i])))
				}
				p.specConsts[gg] = arr
			}
		}
	}
	return p.specConsts[g]
}

// initIntConst: the value of an integer package-level variable that is assigned exactly once in
// the whole program, in its package initialiser, with a value the symbolic executor evaluates to
// a constant (e.g. rhp/v4 sizeofHash = sizeof(types.Hash256{})).
func (p *Program) initIntConst(g *ssa.Global) *Term {
	p.specifierConst(g) // fills p.storeCount
	if p.storeCount[g] != 1 || g.Pkg == nil {
		return nil
	}
	if p.initVals == nil {
		p.initVals = map[*ssa.Package]map[*ssa.Global]*Term{}
	}
	vals, done := p.initVals[g.Pkg]
	if !done {
		vals = map[*ssa.Global]*Term{}
		p.initVals[g.Pkg] = vals
		initFn := g.Pkg.Func("init")
		if initFn != nil && initFn.Blocks != nil {
			func() {
				defer func() {
					if r := recover(); r != nil && os.Getenv("GOVC_WIREDEBUG") != "" {
						fmt.Fprintf(os.Stderr, "INIT %s: panic %v\n", g.Pkg.Pkg.Path(), r)
					}
				}()
				ex := &Exec{P: p, Unit: "init:" + g.Pkg.Pkg.Path(), Inlined: map[string]bool{}, Used: map[string]bool{}, Trusted: map[string]bool{}, initCapture: vals, MayPanic: true, flatWire: true}
				fr := &Frame{ex: ex, fn: initFn, prefix: "init/", cells: map[ssa.Value]*Cell{}}
				ex.stack = []*ssa.Function{initFn}
				fr.run(nil, nil, Mem{}, TTrue)
			}()
		}
	}
	if os.Getenv("GOVC_WIREDEBUG") != "" {
		fmt.Fprintf(os.Stderr, "INITCONST %s = %v (stores %d, known %d)\n", g.Name(), vals[g], p.storeCount[g], len(vals))
	}
	return vals[g]
}

func (fr *Frame) bindSiblingClosures() {
	fn := fr.fn
	parent := fn.Parent()
	var mine *ssa.MakeClosure
	for _, b := range parent.Blocks {
		for _, in := range b.Instrs {
			if mc, ok := in.(*ssa.MakeClosure); ok && mc.Fn == fn {
				mine = mc
			}
		}
	}
	if mine == nil {
		return
	}
	for i, fv := range fn.FreeVars {
		if i >= len(mine.Bindings) {
			break
		}
		pt, ok := fv.Type().Underlying().(*types.Pointer)
		if !ok {
			continue
		}
		if _, isSig := pt.Elem().Underlying().(*types.Signature); !isSig {
			continue
		}
		var target *ssa.Function
		n := 0
		for _, b := range parent.Blocks {
			for _, in := range b.Instrs {
				if st, ok := in.(*ssa.Store); ok && st.Addr == mine.Bindings[i] {
					n++
					switch v := st.Val.(type) {
					case *ssa.MakeClosure:
						if len(v.Bindings) == 0 {
							target, _ = v.Fn.(*ssa.Function)
						}
					case *ssa.Function:
						target = v
					}
				}
			}
		}
		if n != 1 || target == nil {
			continue
		}
		c := fr.ex.newCell(pt.Elem(), "closure:"+target.Name())
		if fr.ex.funcCells == nil {
			fr.ex.funcCells = map[*Cell]FuncV{}
		}
		fr.ex.funcCells[c] = FuncV{Fn: target}
		fr.vals[fv] = PtrV{Cell: c, Elem: pt.Elem()}
	}
}
