package main

import (
	"sort"
	"strings"
)

// Per-property registry: evidence level, explanation, extra engines.

var propLevels = map[string]string{
	"C15": "proof",
	"C17": "proof",
}

func propLevel(p string) string {
	if l, ok := propLevels[p]; ok {
		return l
	}
	return "proof"
}

var propExplain = map[string]string{
	"C15": "Every Currency operation is verified against the integers: contracts on the real methods of types/currency.go state the exact 128-bit result and the exact overflow/underflow/division-by-zero condition; weakest-precondition obligations are generated from go/ssa of the working tree and discharged by SMT for all 2^256 operand pairs (quoRem: 64-way split on the normalisation shift plus the residual case).",
}

func init() {
	propExplain["C08"] = "Proved for all inputs, as postconditions of the real validators: every accepted v1 siacoin/siafund input has its timelock expired and (siacoins) its parent matured (<= child height); v1 contracts and revisions respect window rules and the parent's window has not opened; v2 siacoin parents are mature; v2 contracts, revisions (against the latest revision in the block), renewals, storage proofs (height >= proof height, proof index at proof height and an ancestor) and expirations (height > expiration height) obey their height rules; ValidateHeader's rule. For v1 siacoins the converse (sufficiency) is proved too, so the maturity/timelock boundary is exact."
	propExplain["C13"] = "256-bit Work arithmetic and the v2/FinalCut difficulty retargeting, total-work update, target inversion, header application and header validation are verified against contracts for all inputs; loops over the four limbs are fully unrolled; int64 wrap-around of timestamps and durations is modelled, so the clamp and non-zero results hold for every timestamp sequence."
	propExplain["C17"] = "RHP contract constructors and cost functions are verified against contracts taken from the property statement (exact charge, preserved totals, exact split, bounded rollover, funding identity, consensus value predicates, v1 tax equation); obligations are generated from go/ssa of the working tree and discharged by SMT for all inputs satisfying the stated preconditions."
}

// propKinds: properties decided by particular obligation kinds only.
var propKinds = map[string]map[string]bool{
	"C09": {"frame": true, "purity": true},
}

func propExplanation(p string) string { return propExplain[p] }

type extraEngine func(p *Program, res *CheckResult)

var extraEngines = map[string][]extraEngine{
	"C11": {wireEngineFor("roundtrip", func(o *Obligation) bool { return !strings.Contains(o.Name, "/dec-any/") })},
	"C12": {domainSepEngine},
	"C10": {wireEngineFor("total", func(o *Obligation) bool { return strings.Contains(o.Name, "/dec-any/") })},
}

// wireEngineFor runs the wire engine over every codec pair of the module and keeps the
// obligations selected by keep (round-trip obligations for C11, totality of decoders on
// arbitrary input for C10).
func wireEngineFor(mode string, keep func(*Obligation) bool) extraEngine {
	return func(p *Program, res *CheckResult) {
		n := 0
		for _, ct := range p.codecTypes("") {
			if wireSkip[typeKey(ct.Named)] {
				continue
			}
			rep := p.WireCheckMode(ct, mode)
			var obls []*Obligation
			for _, o := range rep.Obls {
				if o.Kind == "cover" {
					if res.Prop == "C11" {
						obls = append(obls, o)
					}
					continue
				}
				if keep(o) {
					obls = append(obls, o)
				}
			}
			rep.Obls = obls
			if len(obls) == 0 && rep.Err == "" {
				continue
			}
			if rep.Err != "" {
				rep.OOS = append(rep.OOS, "wire engine: "+rep.Err)
			}
			res.Reports = append(res.Reports, rep)
			res.Obls = append(res.Obls, obls...)
			n++
		}
		res.Extra["codec_pairs_checked"] = n
		var skipped []string
		for k := range wireSkip {
			skipped = append(skipped, k)
		}
		sort.Strings(skipped)
		res.Extra["codec_pairs_outside_engine"] = skipped
	}
}

func runExtraEngines(p *Program, res *CheckResult) {
	for _, e := range extraEngines[res.Prop] {
		e(p, res)
	}
}
